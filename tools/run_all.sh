#!/bin/sh
# runs every claimed check (quick tier by default) and prints one line per property
cd /verif
TIER=${1:-quick}
python3 tools/lint_tags.py 2>&1 | tail -1
for p in $(python3 -c "import json;print(' '.join(c['property_id'] for c in json.load(open('MANIFEST.json'))['checks']))"); do
  s=$(date +%s)
  out=$(./check $p --tier $TIER 2>&1); rc=$?
  e=$(date +%s)
  echo "$p rc=$rc $((e-s))s $(echo "$out" | tail -1)"
  if [ $rc -ne 0 ]; then echo "$out" | grep -E 'VIOLATION|UNDECIDED|FAILED|KNOWN' | head -5; fi
done
