use vstd::prelude::*;
use vstd::std_specs::iter::IteratorSpec;
use vstd::std_specs::cmp::*;
use core::cmp::Ordering;
verus! {
global size_of usize == 8;

// ---------- spec side ----------
#[derive(Debug, PartialEq, Eq, PartialOrd, Clone, Copy)]
pub enum Tag { SIG, VER, NONC, PAD }

pub open spec fn ord_of(a: int, b: int) -> Ordering {
    if a < b { Ordering::Less } else if a == b { Ordering::Equal } else { Ordering::Greater }
}


pub open spec fn tag_rank(t: Tag) -> int {
    match t { Tag::SIG => 0, Tag::VER => 1, Tag::NONC => 2, Tag::PAD => 3 }
}
pub uninterp spec fn wire_of(t: Tag) -> Seq<u8>;
pub uninterp spec fn known_wire(w: Seq<u8>) -> Option<Tag>;

pub open spec fn u32_le(s: Seq<u8>, i: int) -> int {
    s[i] as int + 256 * (s[i+1] as int) + 65536 * (s[i+2] as int) + 16777216 * (s[i+3] as int)
}

pub enum Error {
    TagNotStrictlyIncreasing(Tag),
    InvalidTag,
    InvalidNumTags(u32),
    InvalidValueLength(Tag, u32),
    EncodingFailure(String),
    InvalidAlignment(u32),
    InvalidOffsetValue(u32),
    MessageTooShort,
}

pub struct IoError;
impl vstd::std_specs::convert::FromSpecImpl<IoError> for Error {
    open spec fn obeys_from_spec() -> bool { false }
    open spec fn from_spec(v: IoError) -> Self { Error::MessageTooShort }
}
impl From<IoError> for Error {
    fn from(err: IoError) -> Self { Error::EncodingFailure(String::new()) }
}

pub assume_specification<T: Clone> [<[T]>::to_vec] (s: &[T]) -> (r: Vec<T>)
    ensures r@ == s@;

pub struct LittleEndian;

pub struct Cursor<T> { pub inner: T, pub pos: u64 }

impl<'a> Cursor<&'a [u8]> {
    pub fn new(inner: &'a [u8]) -> (c: Self)
        ensures c.inner@ == inner@, c.pos == 0
    { Cursor { inner, pos: 0 } }

    pub fn position(&self) -> (p: u64) ensures p == self.pos { self.pos }

    pub fn set_position(&mut self, p: u64)
        ensures final(self).pos == p, final(self).inner@ == old(self).inner@
    { self.pos = p; }

    #[verifier::external_body]
    pub fn read_u32<T>(&mut self) -> (r: Result<u32, IoError>)
        ensures
            final(self).inner@ == old(self).inner@,
            match r {
                Ok(v) => old(self).pos + 4 <= old(self).inner@.len() && final(self).pos == old(self).pos + 4
                    && v as int == u32_le(old(self).inner@, old(self).pos as int),
                Err(_) => old(self).pos + 4 > old(self).inner@.len(),
            }
    { unimplemented!() }

    #[verifier::external_body]
    pub fn read_exact(&mut self, buf: &mut [u8]) -> (r: Result<(), IoError>)
        ensures
            final(self).inner@ == old(self).inner@,
            final(buf)@.len() == old(buf)@.len(),
            match r {
                Ok(_) => old(self).pos + old(buf)@.len() <= old(self).inner@.len()
                    && final(self).pos == old(self).pos + old(buf)@.len()
                    && final(buf)@ == old(self).inner@.subrange(old(self).pos as int, old(self).pos + old(buf)@.len()),
                Err(_) => old(self).pos + old(buf)@.len() > old(self).inner@.len(),
            }
    { unimplemented!() }
}

impl Tag {
    #[verifier::external_body]
    pub fn from_wire(bytes: &[u8]) -> (r: Result<Tag, Error>)
        ensures match r { Ok(t) => known_wire(bytes@) == Some(t), Err(_) => known_wire(bytes@) is None }
    { unimplemented!() }
}


pub mod axioms {
use vstd::prelude::*;
use vstd::std_specs::cmp::*;
use super::*;
pub broadcast axiom fn tag_derive_eq(a: Tag, b: Tag)
    ensures
        <Tag as PartialEqSpec<Tag>>::obeys_eq_spec(),
        #[trigger] a.eq_spec(&b) == (a == b);
pub broadcast axiom fn tag_derive_ord(a: Tag, b: Tag)
    ensures
        <Tag as PartialOrdSpec<Tag>>::obeys_partial_cmp_spec(),
        #[trigger] a.partial_cmp_spec(&b) == Some(ord_of(tag_rank(a), tag_rank(b)));
pub broadcast group tag_derive { tag_derive_eq, tag_derive_ord }
}
// ---------- reference format spec ----------
pub struct SpecMsg { pub tags: Seq<Tag>, pub values: Seq<Seq<u8>> }

pub open spec fn strictly_inc(tags: Seq<Tag>) -> bool {
    forall|i: int, j: int| #![trigger tags[i], tags[j]] 0 <= i < j < tags.len() ==> tag_rank(tags[i]) < tag_rank(tags[j])
}

// offset of value i relative to header end (i in 0..=n); off(0)=0, off(n)=len-header
pub open spec fn hdr_len(n: int) -> int { if n == 0 { 4 } else { 4 + 4 * (n - 1) + 4 * n } }

pub open spec fn off(b: Seq<u8>, n: int, i: int) -> int {
    if i <= 0 { 0 } else if i >= n { b.len() - hdr_len(n) } else { u32_le(b, 4 + 4 * (i - 1)) }
}

pub open spec fn tag_at(b: Seq<u8>, n: int, i: int) -> Option<Tag> {
    known_wire(b.subrange(4 + 4 * (n - 1) + 4 * i, 4 + 4 * (n - 1) + 4 * i + 4))
}

// the reference acceptance predicate for n >= 1
pub open spec fn ref_accepts_n(b: Seq<u8>, n: int) -> bool {
    &&& hdr_len(n) <= b.len()
    &&& forall|i: int| 0 <= i < n ==> (#[trigger] tag_at(b, n, i)) is Some
    &&& forall|i: int, j: int| #![trigger tag_at(b, n, i), tag_at(b, n, j)] 0 <= i < j < n ==> tag_rank(tag_at(b, n, i).unwrap()) < tag_rank(tag_at(b, n, j).unwrap())
    &&& forall|i: int| 1 <= i < n ==> (#[trigger] off(b, n, i)) % 4 == 0
    &&& forall|i: int| 0 <= i < n ==> off(b, n, i) <= #[trigger] off(b, n, i + 1)
}

pub open spec fn ref_decode_n(b: Seq<u8>, n: int) -> SpecMsg {
    SpecMsg {
        tags: Seq::new(n as nat, |i: int| tag_at(b, n, i).unwrap()),
        values: Seq::new(n as nat, |i: int| b.subrange(hdr_len(n) + off(b, n, i), hdr_len(n) + off(b, n, i + 1))),
    }
}


// ---- iterator shims (rewrite rules R2/R3) ----
pub fn once_chain_v<'a>(a: &'a usize, v: &'a Vec<usize>) -> (r: Vec<&'a usize>)
    ensures r@.len() == v@.len() + 1, *r@[0] == *a,
        forall|i: int| 0 <= i < v@.len() ==> *(#[trigger] r@[i + 1]) == v@[i]
{
    let mut r: Vec<&usize> = Vec::new();
    r.push(a);
    let mut i: usize = 0;
    while i < v.len()
        invariant i <= v@.len(), r@.len() == i + 1, *r@[0] == *a,
            forall|j: int| 0 <= j < i ==> *(#[trigger] r@[j + 1]) == v@[j]
        decreases v@.len() - i
    {
        r.push(&v[i]);
        i += 1;
    }
    r
}
pub fn chain_once_v<'a>(v: &'a Vec<usize>, a: &'a usize) -> (r: Vec<&'a usize>)
    ensures r@.len() == v@.len() + 1, *r@[v@.len() as int] == *a,
        forall|i: int| 0 <= i < v@.len() ==> *(#[trigger] r@[i]) == v@[i]
{
    let mut r: Vec<&usize> = Vec::new();
    let mut i: usize = 0;
    while i < v.len()
        invariant i <= v@.len(), r@.len() == i,
            forall|j: int| 0 <= j < i ==> *(#[trigger] r@[j]) == v@[j]
        decreases v@.len() - i
    {
        r.push(&v[i]);
        i += 1;
    }
    r.push(a);
    r
}


pub proof fn lemma_off_bounded(b: Seq<u8>, n: int, i: int)
    requires ref_accepts_n(b, n), 0 <= i <= n, n >= 1
    ensures off(b, n, i) <= b.len() - hdr_len(n)
    decreases n - i
{
    if i < n {
        lemma_off_bounded(b, n, i + 1);
        assert(off(b, n, i) <= off(b, n, i + 1));
    }
}

pub fn once_chain<'a>(a: &'a usize, v: &'a Vec<usize>) -> (r: std::vec::IntoIter<&'a usize>)
    ensures r.remaining().len() == v@.len() + 1, *r.remaining()[0] == *a,
        forall|i: int| 1 <= i <= v@.len() ==> *(#[trigger] r.remaining()[i]) == v@[i - 1]
{
    let vv = once_chain_v(a, v);
    assert forall|i: int| 1 <= i <= v@.len() implies *(#[trigger] vv@[i]) == v@[i - 1] by {
        assert(*vv@[(i - 1) + 1] == v@[i - 1]);
    }
    return vv.into_iter();
    once_chain_v(a, v).into_iter()
}
pub fn chain_once<'a>(v: &'a Vec<usize>, a: &'a usize) -> (r: std::vec::IntoIter<&'a usize>)
    ensures r.remaining().len() == v@.len() + 1, *r.remaining()[v@.len() as int] == *a,
        forall|i: int| 0 <= i < v@.len() ==> *(#[trigger] r.remaining()[i]) == v@[i]
{
    chain_once_v(v, a).into_iter()
}

pub struct RtMessage {
    pub tags: Vec<Tag>,
    pub values: Vec<Vec<u8>>,
}

impl RtMessage {
    pub open spec fn view(&self) -> SpecMsg {
        SpecMsg { tags: self.tags@, values: Seq::new(self.values@.len(), |i: int| self.values@[i]@) }
    }
    pub open spec fn wf(&self) -> bool {
        self.tags@.len() == self.values@.len() && strictly_inc(self.tags@)
    }

    pub fn with_capacity(num_fields: u32) -> (r: Self)
        ensures r.tags@.len() == 0, r.values@.len() == 0
    {
        RtMessage {
            tags: Vec::with_capacity(num_fields as usize),
            values: Vec::with_capacity(num_fields as usize),
        }
    }



    fn multi_tag_message(
        num_tags: u32,
        bytes: &[u8],
        msg: &mut Cursor<&[u8]>,
    ) -> (r: Result<Self, Error>)
        requires
            2 <= num_tags <= 1024,
            old(msg).inner@ == bytes@,
            old(msg).pos == 4,
            bytes@.len() >= 4, bytes@.len() % 4 == 0,
            bytes@.len() <= u32::MAX,
        ensures
            match r {
                Ok(m) => ref_accepts_n(bytes@, num_tags as int) && m.wf() && m.view() =~~= ref_decode_n(bytes@, num_tags as int),
                Err(_) => !ref_accepts_n(bytes@, num_tags as int),
            }
    {
        broadcast use axioms::tag_derive;
        let ghost n = num_tags as int;
        let ghost b = bytes@;
        let bytes_len = bytes.len();
        let mut offsets = Vec::with_capacity((num_tags - 1) as usize);

        proof { let _t: &Vec<usize> = &offsets; }
        for _ in it1: 0..num_tags - 1
            invariant
                n == num_tags as int, b == bytes@, 2 <= n <= 1024,
                msg.inner@ == b, bytes_len == b.len(), b.len() <= u32::MAX,
                offsets@.len() == it1.index(),
                offsets@.len() <= n - 1,
                msg.pos == 4 + 4 * offsets@.len(),
                msg.pos <= b.len(),
                forall|j: int| 0 <= j < offsets@.len() ==> (#[trigger] offsets@[j]) as int == off(b, n, j + 1)
                    && offsets@[j] % 4 == 0 && offsets@[j] <= bytes_len,
        {
            proof {
                let k = offsets@.len() as int;
                assert(off(b, n, k + 1) == u32_le(b, msg.pos as int));
                if ref_accepts_n(b, n) { lemma_off_bounded(b, n, k + 1); }
            }
            let offset = msg.read_u32::<LittleEndian>()?;

            if offset % 4 != 0 {
                return Err(Error::InvalidAlignment(offset));
            } else if offset > bytes_len as u32 {
                return Err(Error::InvalidOffsetValue(offset));
            }

            offsets.push(offset as usize);
        }

        let mut buf = [0; 4];
        let mut tags = Vec::with_capacity(num_tags as usize);

        proof { let _t: &Vec<Tag> = &tags; }
        for _ in it2: 0..num_tags
            invariant
                n == num_tags as int, b == bytes@, 2 <= n <= 1024,
                msg.inner@ == b, bytes_len == b.len(), b.len() <= u32::MAX,
                buf@.len() == 4,
                offsets@.len() == n - 1,
                forall|j: int| 0 <= j < offsets@.len() ==> (#[trigger] offsets@[j]) as int == off(b, n, j + 1)
                    && offsets@[j] % 4 == 0 && offsets@[j] <= bytes_len,
                tags@.len() == it2.index(),
                tags@.len() <= n,
                msg.pos == 4 * n + 4 * tags@.len(),
                msg.pos <= b.len(),
                forall|j: int| 0 <= j < tags@.len() ==> tag_at(b, n, j) == Some(#[trigger] tags@[j]),
                strictly_inc(tags@),
        {
            broadcast use axioms::tag_derive;
            proof {
                let k = tags@.len() as int;
                if msg.pos + 4 <= b.len() {
                    assert(tag_at(b, n, k) == known_wire(b.subrange(msg.pos as int, msg.pos as int + 4)));
                }
                if k > 0 { assert(tag_at(b, n, k - 1) == Some(tags@[k - 1])); }
            }
            if msg.read_exact(&mut buf).is_err() {
                return Err(Error::MessageTooShort);
            }

            let tag = Tag::from_wire(&buf)?;

            if let Some(last_tag) = tags.last() {
                if tag <= *last_tag {
                    return Err(Error::TagNotStrictlyIncreasing(tag));
                }
            }

            tags.push(tag);
        }

        // All offsets are relative to the end of the header,
        // which is our current position
        let header_end = msg.position() as usize;

        // Compute the end of the last value,
        // as an offset from the end of the header
        let msg_end = bytes.len() - header_end;

        // Create an iterator for the offset pairs of each tag value
        let start_offsets = once_chain(&0, &offsets);
        let end_offsets = chain_once(&offsets, &msg_end);
        let offset_pairs = start_offsets.zip(end_offsets);

        // The message being built
        let mut rt_msg = RtMessage::with_capacity(num_tags);

        let ghost tags_seq = tags@;
        proof {
            assert forall|j: int| 0 <= j < n implies (#[trigger] tag_at(b, n, j)) == Some(tags_seq[j]) by {
                assert(tag_at(b, n, j) == Some(tags@[j]));
            }
            assert forall|j: int| 0 <= j < n implies *(#[trigger] offset_pairs.remaining()[j]).0 == off(b, n, j)
                && *offset_pairs.remaining()[j].1 == off(b, n, j + 1) by {
                if j >= 1 { assert(offsets@[j - 1] as int == off(b, n, j)); }
                if j < n - 1 { assert(offsets@[j] as int == off(b, n, j + 1)); }
            }
        }
        proof {
            assert forall|j: int| 1 <= j < n implies (#[trigger] off(b, n, j)) % 4 == 0 && off(b, n, j) <= b.len() by {
                assert(offsets@[j - 1] as int == off(b, n, j));
            }
        }
        for (tag, (value_start, value_end)) in it3: tags.into_iter().zip(offset_pairs)
            invariant
                n == num_tags as int, b == bytes@, 2 <= n <= 1024,
                bytes_len == b.len(), header_end == 8 * n, header_end <= b.len(),
                tags_seq.len() == n, strictly_inc(tags_seq),
                forall|j: int| 0 <= j < n ==> (#[trigger] tag_at(b, n, j)) == Some(tags_seq[j]),
                forall|j: int| 1 <= j < n ==> (#[trigger] off(b, n, j)) % 4 == 0 && off(b, n, j) <= b.len(),
                it3.seq().len() == n,
                forall|j: int| 0 <= j < n ==> (#[trigger] it3.seq()[j]).0 == tags_seq[j]
                    && *it3.seq()[j].1.0 == off(b, n, j) && *it3.seq()[j].1.1 == off(b, n, j + 1),
                rt_msg.wf(),
                rt_msg.tags@ == tags_seq.subrange(0, it3.index() as int),
                rt_msg.values@.len() == it3.index(),
                forall|j: int| 0 <= j < it3.index() ==> off(b, n, j) <= #[trigger] off(b, n, j + 1) && off(b, n, j + 1) <= b.len() - 8 * n
                    && rt_msg.values@[j]@ == b.subrange(8 * n + off(b, n, j), 8 * n + off(b, n, j + 1)),
        {
            proof {
                let k = it3.index() as int;
                if ref_accepts_n(b, n) { lemma_off_bounded(b, n, k + 1); }
            }
            let start_idx = header_end + value_start;
            let end_idx = header_end + value_end;

            if end_idx > bytes_len || start_idx > end_idx {
                return Err(Error::InvalidValueLength(tag, end_idx as u32));
            }

            let value = bytes[start_idx..end_idx].to_vec();
            rt_msg.add_field(tag, &value)?;
        }

        proof {
            assert(rt_msg.tags@ =~= tags_seq);
            assert(hdr_len(n) == 8 * n);
            assert(forall|i: int| 0 <= i < n ==> (#[trigger] tag_at(b, n, i)) is Some);
            assert(forall|i: int| 0 <= i < n ==> off(b, n, i) <= #[trigger] off(b, n, i + 1));
            assert(forall|i: int, j: int| #![trigger tag_at(b, n, i), tag_at(b, n, j)] 0 <= i < j < n ==> tag_rank(tag_at(b, n, i).unwrap()) < tag_rank(tag_at(b, n, j).unwrap())) by {
                assert forall|i: int, j: int| #![trigger tag_at(b, n, i), tag_at(b, n, j)] 0 <= i < j < n implies tag_rank(tag_at(b, n, i).unwrap()) < tag_rank(tag_at(b, n, j).unwrap()) by {
                    assert(tag_at(b, n, i) == Some(tags_seq[i]));
                    assert(tag_at(b, n, j) == Some(tags_seq[j]));
                }
            }
            assert(ref_accepts_n(b, n));
            assert(rt_msg.view().tags =~= ref_decode_n(b, n).tags);
            assert(rt_msg.view().values =~= ref_decode_n(b, n).values);
        }
        Ok(rt_msg)
    }

    pub fn add_field(&mut self, tag: Tag, value: &[u8]) -> (r: Result<(), Error>)
        requires old(self).wf()
        ensures
            final(self).wf(),
            match r {
                Ok(_) => final(self).tags@ == old(self).tags@.push(tag)
                      && final(self).values@.len() == old(self).values@.len() + 1
                      && (forall|i: int| 0 <= i < old(self).values@.len() ==> final(self).values@[i] == old(self).values@[i])
                      && final(self).values@[old(self).values@.len() as int]@ == value@
                      && (old(self).tags@.len() > 0 ==> tag_rank(old(self).tags@.last()) < tag_rank(tag)),
                Err(_) => final(self).tags@ == old(self).tags@ && final(self).values@ == old(self).values@
                      && old(self).tags@.len() > 0 && tag_rank(tag) <= tag_rank(old(self).tags@.last()),
            }
    {
        broadcast use axioms::tag_derive;
        if let Some(last_tag) = self.tags.last() {
            if tag <= *last_tag {
                return Err(Error::TagNotStrictlyIncreasing(tag));
            }
        }

        self.tags.push(tag);
        self.values.push(value.to_vec());

        Ok(())
    }
}
}
fn main() {}
