use vstd::prelude::*;
use vstd::std_specs::iter::IteratorSpec;
verus! {
global size_of usize == 8;
pub assume_specification<T: Clone> [<[T]>::to_vec] (s: &[T]) -> (r: Vec<T>) ensures r@ == s@;

#[derive(Debug, PartialEq, Eq, Clone, Copy)]
pub enum Tag { SIG, NONC, PATH, SREP, CERT, INDX }
pub open spec fn tag_rank(t: Tag) -> int { match t { Tag::SIG => 0, Tag::NONC => 3, Tag::PATH => 5, Tag::SREP => 9, Tag::CERT => 13, Tag::INDX => 15 } }
#[derive(Debug)]
pub enum Error { Other }
pub const SIGNATURE_LENGTH: u32 = 64;

// ---- message unit by contract ----
pub struct RtMessage { pub tags: Vec<Tag>, pub values: Vec<Vec<u8>> }
impl RtMessage {
    pub open spec fn has(&self, t: Tag) -> bool { exists|i: int| 0 <= i < self.tags@.len() && self.tags@[i] == t }
    pub open spec fn wfl(&self) -> bool { self.tags@.len() == self.values@.len() && self.tags@.len() <= 1024 }
    pub open spec fn inc(&self) -> bool { forall|i: int, j: int| #![trigger self.tags@[i], self.tags@[j]] 0 <= i < j < self.tags@.len() ==> tag_rank(self.tags@[i]) < tag_rank(self.tags@[j]) }
    #[verifier::external_body]
    pub fn with_capacity(n: u32) -> (r: Self) ensures r.tags@ == Seq::<Tag>::empty(), r.values@.len() == 0 { unimplemented!() }
    #[verifier::external_body]
    pub fn new_deliberately_invalid(tags: Vec<Tag>, values: Vec<Vec<u8>>) -> (r: Self) ensures r.tags@ == tags@, r.values@ == values@ { unimplemented!() }
    #[verifier::external_body]
    pub fn add_field(&mut self, tag: Tag, value: &[u8]) -> (r: Result<(), Error>)
        requires old(self).wfl(), old(self).inc(), old(self).tags@.len() < 1024
        ensures final(self).wfl(), final(self).inc(),
            (old(self).tags@.len() == 0 || tag_rank(old(self).tags@.last()) < tag_rank(tag)) ==> r is Ok && final(self).tags@ == old(self).tags@.push(tag)
    { unimplemented!() }
    #[verifier::external_body]
    pub fn get_field(&self, tag: Tag) -> (r: Option<&[u8]>) ensures self.has(tag) == (r is Some) { unimplemented!() }
    pub fn num_fields(&self) -> (r: u32) requires self.wfl() ensures r == self.tags@.len() { self.tags.len() as u32 }
    pub fn tags(&self) -> (r: &[Tag]) ensures r@ == self.tags@ { self.tags.as_slice() }
    pub fn values(&self) -> (r: &[Vec<u8>]) ensures r@ == self.values@ { self.values.as_slice() }
    #[verifier::external_body]
    pub fn to_owned(&self) -> (r: RtMessage) ensures r.tags@ == self.tags@, r.values@ == self.values@ { unimplemented!() }
}

// ---- rand shim (documented contracts) ----
pub struct SmallRng;
pub struct Bernoulli;
impl SmallRng {
    #[verifier::external_body] pub fn sample(&mut self, d: Bernoulli) -> bool { unimplemented!() }
    #[verifier::external_body] pub fn fill_bytes(&mut self, dest: &mut [u8]) ensures final(dest)@.len() == old(dest)@.len() { unimplemented!() }
}
impl Clone for Bernoulli { #[verifier::external_body] fn clone(&self) -> Self { Bernoulli } }
impl Copy for Bernoulli {}
pub enum Pathologies { RandomlyOrderTags, CorruptResponseSignature }
use Pathologies::*;
// `ALL_PATHOLOGIES.choose(&mut rng)`: Some(element) for a non-empty slice
#[verifier::external_body]
pub fn choose_pathology<'a>(rng: &mut SmallRng) -> (r: Option<&'a Pathologies>) ensures r is Some { unimplemented!() }
// `index_sample(rng, n, n).iter()`: a permutation of 0..n
#[verifier::external_body]
pub fn index_sample_v(rng: &mut SmallRng, length: usize, amount: usize) -> (r: Vec<usize>)
    requires amount <= length
    ensures r@.len() == amount, forall|i: int| 0 <= i < r@.len() ==> (#[trigger] r@[i]) < length
{ unimplemented!() }
pub fn index_sample_iter(rng: &mut SmallRng, length: usize, amount: usize) -> (r: std::vec::IntoIter<usize>)
    requires amount <= length
    ensures r.decrease() is Some, r.remaining().len() == amount, forall|i: int| 0 <= i < amount ==> (#[trigger] r.remaining()[i]) < length
{ index_sample_v(rng, length, amount).into_iter() }

pub struct Grease { enabled: bool, dist: Bernoulli, prng: SmallRng }

impl Grease {
    pub fn should_add_error(&mut self) -> bool {
        if self.enabled {
            self.prng.sample(self.dist)
        } else {
            false
        }
    }

    pub fn add_errors(&mut self, src_msg: &RtMessage) -> RtMessage
        requires src_msg.wfl(), src_msg.has(Tag::SIG) ==> (src_msg.has(Tag::PATH) && src_msg.has(Tag::SREP) && src_msg.has(Tag::CERT) && src_msg.has(Tag::INDX))
    {
        match choose_pathology(&mut self.prng) {
            Some(CorruptResponseSignature) => self.corrupt_response_signature(src_msg),
            Some(RandomlyOrderTags) => self.randomly_order_tags(src_msg),
            None => unreachable!(),
        }
    }

    fn randomly_order_tags(&mut self, src_msg: &RtMessage) -> RtMessage
        requires src_msg.wfl()
    {
        let src_tags = src_msg.tags();
        let src_values = src_msg.values();
        let num_fields = src_msg.num_fields() as usize;

        let mut new_tags: Vec<Tag> = Vec::with_capacity(num_fields);
        let mut new_values: Vec<Vec<u8>> = Vec::with_capacity(num_fields);

        // TODO(stuart) use replacement instead of copying
        for idx in it: index_sample_iter(&mut self.prng, num_fields, num_fields)
            invariant src_tags@.len() == num_fields, src_values@.len() == num_fields,
                it.seq().len() == num_fields, forall|i: int| 0 <= i < it.seq().len() ==> (#[trigger] it.seq()[i]) < num_fields,
        {
            new_tags.push(*src_tags.get(idx).unwrap());
            new_values.push(src_values.get(idx).unwrap().to_vec());
        }

        RtMessage::new_deliberately_invalid(new_tags, new_values)
    }

    fn corrupt_response_signature(&mut self, src_msg: &RtMessage) -> RtMessage
        requires src_msg.wfl(), src_msg.has(Tag::SIG) ==> (src_msg.has(Tag::PATH) && src_msg.has(Tag::SREP) && src_msg.has(Tag::CERT) && src_msg.has(Tag::INDX))
    {
        if src_msg.get_field(Tag::SIG).is_none() {
            return src_msg.to_owned();
        }

        let mut random_sig: [u8; SIGNATURE_LENGTH as usize] = [0u8; SIGNATURE_LENGTH as usize];
        self.prng.fill_bytes(&mut random_sig);

        let mut new_msg = RtMessage::with_capacity(src_msg.num_fields());
        new_msg.add_field(Tag::SIG, &random_sig).unwrap();
        new_msg
            .add_field(Tag::PATH, src_msg.get_field(Tag::PATH).unwrap())
            .unwrap();
        new_msg
            .add_field(Tag::SREP, src_msg.get_field(Tag::SREP).unwrap())
            .unwrap();
        new_msg
            .add_field(Tag::CERT, src_msg.get_field(Tag::CERT).unwrap())
            .unwrap();
        new_msg
            .add_field(Tag::INDX, src_msg.get_field(Tag::INDX).unwrap())
            .unwrap();

        new_msg
    }
}
}
fn main() {}
