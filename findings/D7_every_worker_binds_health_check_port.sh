#!/bin/sh
# D7 (C15, and C19 as a consequence) -- recorded only: both properties are outside this technique (DESIGN §7), no check claims them.
# Every worker's Server::new binds the TCP health-check port. With num_workers >= 2 the second bind fails (EADDRINUSE), that worker
# panics while holding the configuration mutex, the remaining workers panic on the poisoned mutex, and the server keeps running
# with ONE worker; at SIGTERM main() then panics in `join().expect("join failed")` (exit status 101 instead of 0).
# Run:  sh findings/D7_every_worker_binds_health_check_port.sh      (needs /repo built: cargo build --offline)
set -e
d=$(mktemp -d)
cat > $d/cfg.yaml <<CFG
interface: 127.0.0.1
port: 18686
seed: a32049da0ffde0ded92ce10a0230d35fe615ec8461c14986baa63fe3b3bac3db
num_workers: 3
health_check_port: 18687
CFG
(cd /repo && cargo build --offline --bin roughenough-server >/dev/null 2>&1)
timeout 4 /repo/target/debug/roughenough-server $d/cfg.yaml > $d/out.txt 2>&1 || echo "exit status: $?"
grep -E "panicked|failed to bind|Number of workers" $d/out.txt
rm -rf $d
