#!/usr/bin/env python3
"""Regenerates /verif/MANIFEST.json from units.json (claimed checks) + claims.json (texts, not_applicable reasons)."""
import json, os
V = os.path.dirname(os.path.dirname(os.path.abspath(__file__)))
units = json.load(open(os.path.join(V, "units.json")))
claims = json.load(open(os.path.join(V, "claims.json")))
props = [json.loads(l)["id"] for l in open(os.path.join(V, "properties.jsonl"))]
checks, na = [], []
for p in props:
    c = claims.get(p, {})
    if p in units["properties"] and c.get("claimed", True):
        checks.append({
            "property_id": p,
            "quick_cmd": "./check %s --tier quick" % p,
            "thorough_cmd": "./check %s --tier thorough" % p,
            "evidence_file": "/verif/evidence/%s.json" % p,
            "replay_cmd_template": "cat {path}",
            "engine": c.get("engine", "verus-contracts"),
            "level_claimed": {"category": c.get("category", "proof"), "text": c["text"], "design_ref": c.get("design_ref", "DESIGN.md §5")},
            "level_note": c["note"],
            "technique": c.get("technique", "contract-based deductive verification (Verus/Z3) of functions extracted mechanically from /repo on every run"),
        })
    else:
        na.append({"property_id": p, "reason": c.get("na_reason", "check not built yet (construction in progress; see DESIGN.md §5/§7)")})
m = {
    "version": 1,
    "setup_cmd": "cd /verif/tools/extractor && CARGO_NET_OFFLINE=true cargo build --release --offline && (python3 /verif/tools/kani_tables.py /repo >/dev/null 2>&1 || true)",
    "hooks": {"guard": "none", "enable": "no hooks are needed: the checks read /repo's working tree (extractor) or a scratch copy of it (Kani)",
              "baseline_off_cmd": "cd /repo && cargo test --workspace --no-fail-fast --offline", "source_commits": [], "add_only": True},
    "engines": [
        {"name": "verus-contracts", "path": "/verif/tools/check.py", "serves_properties": [c["property_id"] for c in checks],
         "kind_free_text": "Verus 0.2026.09.13 (Z3) on function text cut out of /repo by a syn-based extractor, contracts injected from /verif/contracts"},
        {"name": "kani-tables", "path": "/verif/tools/kani_tables.py", "serves_properties": claims.get("_kani_props", []),
         "kind_free_text": "Kani 0.68 / CBMC 6.11 harnesses over finite domains (Tag, Version tables) appended to a scratch copy of the real crate"},
    ],
    "checks": checks,
    "notes": claims.get("_notes", ""),
    "not_applicable": na,
}
json.dump(m, open(os.path.join(V, "MANIFEST.json"), "w"), indent=1)
print("claimed:", [c["property_id"] for c in checks], "not_applicable:", [n["property_id"] for n in na])
