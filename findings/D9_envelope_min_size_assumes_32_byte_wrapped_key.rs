// D9 / C14: decrypt_seed refused every blob shorter than 2+2+32+12+32+16 = 96 bytes, i.e. it assumed the WRAPPED data key is at
// least 32 bytes long. The wrapped key is an opaque, provider-specific value; with a provider whose wrapped key is a 16-byte
// handle, encrypt_seed of a 32..=47-byte seed produces an 80..=95-byte blob that decrypt_seed then rejects ("ciphertext too
// short"): the round trip fails for wrapped-key lengths 16..=31 (C14 quantifies over 16..=1024).
use roughenough::kms::{EnvelopeEncryption, KmsError, KmsProvider};
use std::collections::HashMap;
use std::sync::Mutex;

/// a provider that keeps data keys server-side and hands out 16-byte handles
struct HandleKms { store: Mutex<HashMap<Vec<u8>, Vec<u8>>> }
impl KmsProvider for HandleKms {
    fn encrypt_dek(&self, plaintext_dek: &Vec<u8>) -> Result<Vec<u8>, KmsError> {
        let mut s = self.store.lock().unwrap();
        let handle = vec![s.len() as u8 + 1; 16];
        s.insert(handle.clone(), plaintext_dek.clone());
        Ok(handle)
    }
    fn decrypt_dek(&self, encrypted_dek: &Vec<u8>) -> Result<Vec<u8>, KmsError> {
        self.store.lock().unwrap().get(encrypted_dek).cloned().ok_or(KmsError::InvalidKey("unknown handle".into()))
    }
}

#[test]
fn round_trip_with_a_16_byte_wrapped_key() {
    let kms = HandleKms { store: Mutex::new(HashMap::new()) };
    for seed_len in 32..=64usize {
        let seed = vec![0xabu8; seed_len];
        let blob = EnvelopeEncryption::encrypt_seed(&kms, &seed).expect("encrypt");
        let back = EnvelopeEncryption::decrypt_seed(&kms, &blob);
        assert_eq!(back.as_ref().ok(), Some(&seed), "seed_len {} blob_len {}: {:?}", seed_len, blob.len(), back);
    }
}
