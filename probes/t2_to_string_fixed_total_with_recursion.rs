use vstd::prelude::*;
verus! {
global size_of usize == 8;
pub assume_specification [str::repeat] (s: &str, n: usize) -> String;
pub struct Tag { pub x: u8 }
impl Tag {
    #[verifier::external_body]
    pub fn to_string(&self) -> String { String::new() }
    pub fn is_nested(&self) -> bool { self.x == 1 }
}
pub struct RtMessage { pub tags: Vec<Tag>, pub values: Vec<Vec<u8>> }

#[verifier::external_body]
pub fn hex_encode(v: &[u8]) -> String { String::new() }

pub open spec fn pre(vals: Seq<Vec<u8>>, i: int) -> int decreases i { if i <= 0 { 0 } else { pre(vals, i - 1) + vals[i - 1]@.len() } }
pub proof fn lemma_pre_ge(vals: Seq<Vec<u8>>, n: int, i: int)
    requires 0 <= i < n <= vals.len()
    ensures vals[i]@.len() <= pre(vals, n), pre(vals, n) >= 0
    decreases n
{
    if n - 1 > i { lemma_pre_ge(vals, n - 1, i); } else { lemma_pre_nonneg(vals, n - 1); }
}
pub proof fn lemma_pre_nonneg(vals: Seq<Vec<u8>>, n: int)
    requires 0 <= n <= vals.len() ensures pre(vals, n) >= 0 decreases n
{ if n > 0 { lemma_pre_nonneg(vals, n - 1); } }

impl RtMessage {
    pub open spec fn total(&self) -> int { pre(self.values@, self.values@.len() as int) }
    pub open spec fn wf(&self) -> bool { self.tags@.len() == self.values@.len() && self.tags@.len() <= 1024 }

    // contract proved in the codec unit: an accepted message's values are a proper part of the input
    #[verifier::external_body]
    pub fn from_bytes(b: &[u8]) -> (r: Result<RtMessage, u8>)
        ensures r matches Ok(m) ==> m.wf() && 0 <= m.total() && m.total() + 4 <= b@.len()
    { unimplemented!() }

    pub fn num_fields(&self) -> u32 requires self.wf() { self.tags.len() as u32 }

    pub fn to_string(&self, indent_level: usize) -> String
        requires indent_level > 0, indent_level + self.total() < 1_000_000_000, self.wf()
        decreases self.total()
    {
        proof { lemma_pre_nonneg(self.values@, self.values@.len() as int); }
        assert!(
            indent_level > 0,
            "indent level must be >= 1 (indent_level={})",
            indent_level
        );

        let indent1 = " ".repeat(2 * (indent_level - 1));
        let indent2 = " ".repeat(2 * indent_level);

        let mut result = String::from("RtMessage|");
        result.push_str(&self.num_fields().to_string());
        result.push_str("|{\n");

        for (tag, value) in it: self.tags.iter().zip(self.values.iter())
            invariant self.wf(), indent_level > 0, indent_level + self.total() < 1_000_000_000,
                it.seq().len() == self.values@.len(),
                forall|j: int| 0 <= j < it.seq().len() ==> *(#[trigger] it.seq()[j]).1 == self.values@[j],
        {
            proof {
                lemma_pre_ge(self.values@, self.values@.len() as int, it.index() as int);
                assert(*it.seq()[it.index() as int].1 == self.values@[it.index() as int]);
            }
            result.push_str(&indent2);
            result.push_str(&tag.to_string());
            result.push('(');
            result.push_str(&value.len().to_string());
            result.push_str(") = ");

            // fixed version of the nested dump (D3): fall back to hex when the nested value does not parse
            match RtMessage::from_bytes(value) {
                Ok(nested_msg) if tag.is_nested() => {
                    result.push_str(&nested_msg.to_string(indent_level + 1))
                }
                _ => {
                    result.push_str(&hex_encode(value));
                    result.push('\n');
                }
            }
        }

        result.push_str(&indent1);
        result.push_str("}\n");

        result
    }
}
}
fn main() {}
