#!/usr/bin/env python3
"""Runs the checks against property-PRESERVING changes (refactorings, allowed behaviour changes) written by sub-agents.
usage: harmless_eval.py <dir with NAME.diff (+ NAME.txt)> [NAME ...]
For every patch: private copy of /repo (never /repo itself), apply, `cargo test --offline` (the 47 tests must pass),
then ./check for every property whose units extract from a changed file.  rc 0 = held, 2 = undecided (no alarm),
1 = VIOLATION = a FALSE ALARM to be investigated.  Results: /verif/seeded/harmless/<NAME>.diff + <NAME>.json
"""
import json, os, re, shutil, subprocess, sys, time
from concurrent.futures import ThreadPoolExecutor
V = "/verif"


def sh(cmd, cwd=None, env=None, timeout=7200):
    p = subprocess.run(cmd, cwd=cwd, shell=True, capture_output=True, text=True, env=env, timeout=timeout)
    return p.returncode, p.stdout + p.stderr


def files_of_template(t, seen=None):
    seen = seen if seen is not None else set()
    out = set()
    p = os.path.join(V, "contracts", t) if not t.startswith("contracts/") else os.path.join(V, t)
    if p in seen or not os.path.exists(p):
        return out
    seen.add(p)
    for ln in open(p):
        m = re.match(r"\s*//@include\s+(\S+)", ln)
        if m:
            out |= files_of_template(m.group(1), seen)
        m = re.match(r"\s*//@(?:fn|item|outline|impl|struct|enum|const)\S*\s+(\S+\.rs)\b", ln)
        if m:
            out.add(m.group(1))
    return out


def props_for(files):
    u = json.load(open(os.path.join(V, "units.json")))
    uf = {k: files_of_template(v["template"]) for k, v in u["units"].items()}
    res = []
    for p, pc in sorted(u["properties"].items()):
        fs = set()
        for un in pc.get("units", []):
            fs |= uf.get(un, set())
        if pc.get("kani"):
            fs |= {"src/tag.rs", "src/version.rs", "src/request.rs", "src/lib.rs", "src/merkle.rs", "src/key/longterm.rs"}
        if fs & set(files):
            res.append(p)
    return res


def one(d, name):
    diff = os.path.join(d, name + ".diff")
    cp = "/tmp/harm-repo-" + name
    res = {"name": name, "repo_head": sh("git -C /repo rev-parse --short HEAD")[1].strip()}
    try:
        sh("rm -rf %s && mkdir -p %s && rsync -a --exclude target --exclude .git /repo/ %s/" % (cp, cp, cp))
        rc, o = sh("patch -p1 < %s" % diff, cwd=cp)
        res["applies"] = rc == 0
        if rc != 0:
            res["apply_error"] = o[-500:]
            return res
        files = re.findall(r"^\+\+\+ b/(\S+)", open(diff).read(), re.M)
        res["files"] = files
        env = dict(os.environ, CARGO_TARGET_DIR="/tmp/wt/harm-target-" + name)
        rc, o = sh("cargo test --offline 2>&1 | grep -E '^test result|error(\\[|:)' | head", cwd=cp, env=env)
        shutil.rmtree("/tmp/wt/harm-target-" + name, ignore_errors=True)
        res["suite"] = o.strip().splitlines()[:3]
        res["suite_passes"] = ("47 passed; 0 failed" in o) and ("error" not in o)
        props = props_for(files)
        res["checks"] = {}

        def chk(p):
            t0 = time.time()
            rc2, o2 = sh("./check %s --repo %s" % (p, cp), cwd=V)
            lines = [l for l in o2.splitlines() if l.startswith(("VIOLATION", "FAILED OBLIGATION", "UNDECIDED", "KNOWN-FINDING"))]
            return p, {"rc": rc2, "wall_s": round(time.time() - t0, 1), "lines": lines[:10]}
        with ThreadPoolExecutor(max_workers=3) as ex:
            for p, r in ex.map(chk, props):
                res["checks"][p] = r
    finally:
        shutil.rmtree(cp, ignore_errors=True)
    out = os.path.join(V, "seeded", "harmless")
    if os.path.realpath(diff) != os.path.realpath(os.path.join(out, name + ".diff")):
        shutil.copy(diff, os.path.join(out, name + ".diff"))
    if os.path.exists(os.path.join(d, name + ".txt")):
        res["author_note"] = open(os.path.join(d, name + ".txt")).read()
    elif os.path.exists(os.path.join(out, name + ".json")):
        # re-run from the stored copy: keep the author's note of the first evaluation
        try:
            res["author_note"] = json.load(open(os.path.join(out, name + ".json"))).get("author_note", "")
        except Exception:
            pass
    json.dump(res, open(os.path.join(out, name + ".json"), "w"), indent=1)
    return res


def main():
    d = os.path.abspath(sys.argv[1].rstrip("/"))
    names = sys.argv[2:] or sorted(f[:-5] for f in os.listdir(d) if f.endswith(".diff"))
    with ThreadPoolExecutor(max_workers=int(os.environ.get("HARM_PAR", "2"))) as ex:
        for res in ex.map(lambda n: one(d, n), names):
            cs = res.get("checks", {})
            print(res["name"], "tests=%s" % res.get("suite_passes"), {p: c["rc"] for p, c in cs.items()}, flush=True)
            for p, c in cs.items():
                if c["rc"] != 0:
                    for l in c["lines"][:4]:
                        print("    ", p, l[:230], flush=True)


if __name__ == "__main__":
    main()
