use vstd::prelude::*;
use vstd::std_specs::cmp::PartialEqSpec;
use vstd::std_specs::iter::IteratorSpec;
verus! {
global size_of usize == 8;
pub axiom fn slice_u8_eq_obeys()
    ensures <[u8] as PartialEqSpec<[u8]>>::obeys_eq_spec();
pub broadcast axiom fn slice_u8_eq(a: &[u8], b: &[u8])
    ensures #[trigger] <[u8] as PartialEqSpec<[u8]>>::eq_spec(a, b) == (a@ == b@);
pub assume_specification<T: Clone> [<[T]>::to_vec] (s: &[T]) -> (r: Vec<T>)
    ensures r@ == s@;

#[derive(Debug, PartialEq, Eq, Clone, Copy)]
pub enum Version { Google, RfcDraft13 }
#[derive(Debug, PartialEq, Eq, Clone, Copy)]
pub enum Tag { VER, SRV, NONC }
pub enum Error { RequestTooShort, RequestTooLarge, InvalidRequest, LengthMismatch(u32, u32), NoCompatibleVersion, SrvMismatch, Other }

pub open spec fn draft13() -> Seq<u8> { seq![0x0cu8, 0x00, 0x00, 0x80] }
impl Version {
    #[verifier::external_body]
    pub fn wire_bytes(&self) -> (r: &'static [u8])
        ensures *self == Version::RfcDraft13 ==> r@ == draft13(), *self == Version::Google ==> r@ == seq![0u8, 0, 0, 0]
    { unimplemented!() }
}

// ---- message unit, by contract (proved in m10) ----
pub struct SpecMsg { pub tags: Seq<Tag>, pub values: Seq<Seq<u8>> }
pub uninterp spec fn ref_accepts(b: Seq<u8>) -> bool;
pub uninterp spec fn ref_decode(b: Seq<u8>) -> SpecMsg;
pub open spec fn field(m: SpecMsg, t: Tag) -> Option<Seq<u8>> {
    if exists|i: int| 0 <= i < m.tags.len() && m.tags[i] == t {
        let i = choose|i: int| 0 <= i < m.tags.len() && m.tags[i] == t; Some(m.values[i])
    } else { None }
}
pub struct RtMessage { pub g: Ghost<SpecMsg> }
impl RtMessage {
    #[verifier::external_body]
    pub fn from_bytes(bytes: &[u8]) -> (r: Result<RtMessage, Error>)
        ensures match r { Ok(m) => ref_accepts(bytes@) && m.g@ == ref_decode(bytes@), Err(_) => !ref_accepts(bytes@) }
    { unimplemented!() }
    #[verifier::external_body]
    pub fn get_field(&self, tag: Tag) -> (r: Option<&[u8]>)
        ensures match r { Some(v) => field(self.g@, tag) == Some(v@), None => field(self.g@, tag) is None }
    { unimplemented!() }
}
impl vstd::std_specs::convert::FromSpecImpl<IoError> for Error {
    open spec fn obeys_from_spec() -> bool { false }
    open spec fn from_spec(v: IoError) -> Self { Error::Other }
}
impl From<IoError> for Error { fn from(e: IoError) -> Self { Error::Other } }
pub struct IoError;
pub struct LittleEndian;
pub struct Cursor<T> { pub inner: T, pub pos: u64 }
pub open spec fn u32_le(s: Seq<u8>, i: int) -> int {
    s[i] as int + 256 * (s[i+1] as int) + 65536 * (s[i+2] as int) + 16777216 * (s[i+3] as int)
}
impl<'a> Cursor<&'a [u8]> {
    pub fn new(inner: &'a [u8]) -> (c: Self) ensures c.inner@ == inner@, c.pos == 0 { Cursor { inner, pos: 0 } }
    #[verifier::external_body]
    pub fn read_u32<T>(&mut self) -> (r: Result<u32, IoError>)
        ensures final(self).inner@ == old(self).inner@,
            match r { Ok(v) => old(self).pos + 4 <= old(self).inner@.len() && v as int == u32_le(old(self).inner@, old(self).pos as int),
                      Err(_) => old(self).pos + 4 > old(self).inner@.len() }
    { unimplemented!() }
}

#[verifier::external_body]
pub fn chunks_v<'a>(s: &'a [u8], n: usize) -> (r: Vec<&'a [u8]>)
    requires n > 0
    ensures r@.len() == (s@.len() + n - 1) / n as int,
        forall|i: int| 0 <= i < r@.len() ==> (#[trigger] r@[i])@ ==
            s@.subrange(i * n, if (i + 1) * n <= s@.len() { (i + 1) * n } else { s@.len() as int }),
{ s.chunks(n).collect::<Vec<_>>() }
pub fn chunks<'a>(s: &'a [u8], n: usize) -> (r: std::vec::IntoIter<&'a [u8]>)
    requires n > 0
    ensures r.decrease() is Some, r.remaining().len() == (s@.len() + n - 1) / n as int,
        forall|i: int| 0 <= i < r.remaining().len() ==> (#[trigger] r.remaining()[i])@ ==
            s@.subrange(i * n, if (i + 1) * n <= s@.len() { (i + 1) * n } else { s@.len() as int }),
{ chunks_v(s, n).into_iter() }

pub const MIN_REQUEST_LENGTH: usize = 1024;
pub const MAX_REQUEST_LENGTH: usize = 1500;
#[verifier::external_body]
pub exec const REQUEST_FRAMING_BYTES: &'static [u8] ensures REQUEST_FRAMING_BYTES@ == magic() { b"ROUGHTIM" }
pub open spec fn magic() -> Seq<u8> { seq![0x52u8, 0x4f, 0x55, 0x47, 0x48, 0x54, 0x49, 0x4d] }

// ---- request well-formedness, from the protocol ----
pub open spec fn ver_word(v: Seq<u8>, i: int) -> Seq<u8> { v.subrange(4 * i, if 4 * i + 4 <= v.len() { 4 * i + 4 } else { v.len() as int }) }
pub open spec fn has_d13_first4(v: Seq<u8>) -> bool { exists|i: int| 0 <= i < 4 && 4 * i < v.len() && #[trigger] ver_word(v, i) == draft13() }
pub open spec fn wf_rfc(b: Seq<u8>, srv: Seq<u8>, nonce: Seq<u8>) -> bool {
    &&& b.len() >= 12
    &&& b.subrange(0, 8) == magic()
    &&& u32_le(b, 8) == b.len() - 12
    &&& ref_accepts(b.subrange(12, b.len() as int))
    &&& ({ let m = ref_decode(b.subrange(12, b.len() as int));
          &&& field(m, Tag::VER) matches Some(v) && has_d13_first4(v)
          &&& (field(m, Tag::SRV) matches Some(s) ==> s == srv)
          &&& field(m, Tag::NONC) == Some(nonce) })
}

fn get_supported_version(msg: &RtMessage) -> (r: Option<Version>)
    ensures match r {
        Some(v) => v == Version::RfcDraft13 && (field(msg.g@, Tag::VER) matches Some(b) && has_d13_first4(b)),
        None => !(field(msg.g@, Tag::VER) matches Some(b) && has_d13_first4(b)),
    }
{
    let SUPPORTED_VERSIONS: &[Version] = &[Version::RfcDraft13];

    // To prevent resource exhaustion, this implementation limits the number of VER values it will
    // process to ITERATION_LIMIT.
    let ITERATION_LIMIT: usize = 4;

    broadcast use slice_u8_eq;
    proof { slice_u8_eq_obeys(); }
    if let Some(tag_bytes) = msg.get_field(Tag::VER) {
        // Iterate the list of supplied versions, looking for the first match
        let ghost v = tag_bytes@;
        let ghost nch = (v.len() + 3) / 4;
        for found_ver_bytes in it1: chunks(tag_bytes, 4).take(ITERATION_LIMIT)
            invariant
                v == tag_bytes@, field(msg.g@, Tag::VER) == Some(v), nch == (v.len() + 3) / 4,
                SUPPORTED_VERSIONS@ == seq![Version::RfcDraft13],
                it1.seq().len() == (if nch < 4 { nch } else { 4 }),
                forall|j: int| 0 <= j < it1.seq().len() ==> (#[trigger] it1.seq()[j])@ == ver_word(v, j),
                forall|j: int| 0 <= j < it1.index() ==> ver_word(v, j) != draft13(),
        {
            broadcast use slice_u8_eq;
            proof { slice_u8_eq_obeys(); }
            let ghost j1 = it1.index() as int;
            for supported_ver in it2: SUPPORTED_VERSIONS
                invariant
                    SUPPORTED_VERSIONS@ == seq![Version::RfcDraft13],
                    found_ver_bytes@ == ver_word(v, j1), 0 <= j1 < 4, 4 * j1 < v.len(),
                    field(msg.g@, Tag::VER) == Some(v),
                    it2.index() > 0 ==> ver_word(v, j1) != draft13(),
            {
                broadcast use slice_u8_eq;
                proof { slice_u8_eq_obeys(); }
                if supported_ver.wire_bytes() == found_ver_bytes {
                    return Some(*supported_ver);
                }
            }
        }
    }
    None
}

pub open spec fn wf_classic(b: Seq<u8>, nonce: Seq<u8>) -> bool {
    ref_accepts(b) && field(ref_decode(b), Tag::NONC) == Some(nonce)
}

/// Guess which protocol the request is using and extract the client's nonce from the request
pub fn nonce_from_request(
    buf: &[u8],
    num_bytes: usize,
    expected_srv: &[u8],
) -> (r: Result<(Vec<u8>, Version), Error>)
    requires num_bytes <= buf@.len(), buf@.len() >= 8
    ensures r matches Ok((nonce, v)) ==> 1024 <= num_bytes <= 1500 && (match v {
        Version::RfcDraft13 => wf_rfc(buf@.subrange(0, num_bytes as int), expected_srv@, nonce@),
        Version::Google => buf@.subrange(0, 8) != magic() && wf_classic(buf@.subrange(0, num_bytes as int), nonce@),
    })
{
    if num_bytes < MIN_REQUEST_LENGTH {
        return Err(Error::RequestTooShort);
    } else if num_bytes > MAX_REQUEST_LENGTH {
        return Err(Error::RequestTooLarge);
    }

    proof {
        assert(buf@.subrange(0, num_bytes as int).subrange(0, 8) =~= buf@.subrange(0, 8));
    }
    if is_rfc_request(buf) {
        nonce_from_rfc_request(&buf[..num_bytes], expected_srv)
    } else {
        nonce_from_classic_request(&buf[..num_bytes])
    }
}

/// Inspect the message in `buf`, if it starts with RFC framing, we guess it is an RFC request
fn is_rfc_request(buf: &[u8]) -> (r: bool)
    requires buf@.len() >= 8
    ensures r == (buf@.subrange(0, 8) == magic())
{
    broadcast use slice_u8_eq;
    proof { slice_u8_eq_obeys(); }
    &buf[0..8] == REQUEST_FRAMING_BYTES
}

fn nonce_from_classic_request(buf: &[u8]) -> (r: Result<(Vec<u8>, Version), Error>)
    ensures r matches Ok((nonce, v)) ==> v == Version::Google && wf_classic(buf@, nonce@)
{
    let msg = RtMessage::from_bytes(buf)?;
    match msg.get_field(Tag::NONC) {
        Some(nonce) => Ok((nonce.to_vec(), Version::Google)),
        None => Err(Error::InvalidRequest),
    }
}

// This could be any VER that we support. Extract VER from request and return it.
fn nonce_from_rfc_request(buf: &[u8], expected_srv: &[u8]) -> (r: Result<(Vec<u8>, Version), Error>)
    requires 1024 <= buf@.len() <= 1500, buf@.subrange(0, 8) == magic()
    ensures r matches Ok((nonce, v)) ==> v == Version::RfcDraft13 && wf_rfc(buf@, expected_srv@, nonce@)
{
    broadcast use slice_u8_eq;
    proof {
        slice_u8_eq_obeys();
        let w = buf@.subrange(8, 12);
        assert(w[0] == buf@[8] && w[1] == buf@[9] && w[2] == buf@[10] && w[3] == buf@[11]);
        assert(u32_le(w, 0) == u32_le(buf@, 8));
    }
    // skip first [0..8] bytes which were RFC_REQUEST_FRAME_BYTES
    let mut cur = Cursor::new(&buf[8..12]);
    let reported_len = cur.read_u32::<LittleEndian>()?;
    let actual_len = (buf.len() - 12) as u32;

    if reported_len != actual_len {
        return Err(Error::LengthMismatch(reported_len, actual_len));
    }

    let msg = RtMessage::from_bytes(&buf[12..])?;

    let version = get_supported_version(&msg);
    if version.is_none() {
        return Err(Error::NoCompatibleVersion);
    }

    if let Some(request_srv) = msg.get_field(Tag::SRV) {
        if request_srv != expected_srv {
            return Err(Error::SrvMismatch);
        }
    }

    match msg.get_field(Tag::NONC) {
        Some(nonce) => Ok((nonce.to_vec(), version.unwrap())),
        None => Err(Error::InvalidRequest),
    }
}
}
fn main() {}
