//! D10 / D11 (C16) -- demonstration against the real crate, pinned tree BEFORE the fix commits.
//!
//! Run (from a scratch copy/worktree of /repo at the commit before the fixes):
//!     mkdir -p tests && cp <this file> tests/d10_d11.rs && cargo test --offline --test d10_d11 -- --test-threads=1 --nocapture
//! Before the fixes: both tests FAIL (the values are silently replaced).  After the fixes: both pass.
//!
//! D11: config/file.rs converts YAML integers with `as u16` / `as u8` / `as usize`, so an out-of-range value is reduced
//!      modulo 2^16 / 2^8 and the server starts with a DIFFERENT value: `port: 74222` runs on 8686, `batch_size: 300`
//!      becomes 44 (inside the valid range 1-64, so is_valid_config accepts it), `fault_percentage: 266` becomes 10.
//! D10: config/environment.rs reads the worker count from the variable "ROUGHENOUGH_NUM_WORKERS:" (trailing colon), so the
//!      documented variable ROUGHENOUGH_NUM_WORKERS is ignored and the default is used instead.
use roughenough::config::{is_valid_config, EnvironmentConfig, FileConfig, ServerConfig};
use std::io::Write;

fn write_cfg(body: &str) -> std::path::PathBuf {
    let mut p = std::env::temp_dir();
    p.push(format!("verif-d11-{}-{}.yaml", std::process::id(), body.len()));
    let mut f = std::fs::File::create(&p).unwrap();
    f.write_all(body.as_bytes()).unwrap();
    p
}

#[test]
fn d11_out_of_range_yaml_values_must_not_be_replaced() {
    let p = write_cfg("interface: 127.0.0.1\nport: 74222\nseed: a32049da0ffde0ded92ce10a0230d35fe615ec8461c14986baa63fe3b3bac3db\nbatch_size: 300\nfault_percentage: 266\n");
    let r = std::panic::catch_unwind(|| FileConfig::new(p.to_str().unwrap()));
    let _ = std::fs::remove_file(&p);
    match r {
        Err(_) | Ok(Err(_)) => {} // start-up refused: what C16 demands
        Ok(Ok(cfg)) => {
            let valid = is_valid_config(&cfg);
            assert!(
                !valid,
                "C16 VIOLATED: written port=74222 batch_size=300 fault_percentage=266, server would start (is_valid_config=true) with port={} batch_size={} fault_percentage={}",
                cfg.port(), cfg.batch_size(), cfg.fault_percentage()
            );
        }
    }
}

#[test]
fn d10_documented_num_workers_variable_is_honoured() {
    std::env::set_var("ROUGHENOUGH_INTERFACE", "127.0.0.1");
    std::env::set_var("ROUGHENOUGH_PORT", "8686");
    std::env::set_var("ROUGHENOUGH_SEED", "a32049da0ffde0ded92ce10a0230d35fe615ec8461c14986baa63fe3b3bac3db");
    let dflt = EnvironmentConfig::new().unwrap().num_workers();
    let want = if dflt == 3 { 5 } else { 3 };
    std::env::set_var("ROUGHENOUGH_NUM_WORKERS", want.to_string());
    let got = EnvironmentConfig::new().unwrap().num_workers();
    assert_eq!(got, want, "C16 VIOLATED: ROUGHENOUGH_NUM_WORKERS={} was written, the server runs with num_workers={} (the default)", want, got);
}
