use vstd::prelude::*;
verus! {
pub assume_specification [str::repeat] (s: &str, n: usize) -> String;
pub struct Tag { pub x: u8 }
impl Tag {
    #[verifier::external_body]
    pub fn to_string(&self) -> String { String::new() }
    pub fn is_nested(&self) -> bool { self.x == 1 }
}
pub struct M { pub tags: Vec<Tag>, pub values: Vec<Vec<u8>> }

#[verifier::external_body]
pub fn hex_encode(v: &[u8]) -> String { String::new() }

impl M {
    pub open spec fn total(&self) -> nat
    {
        self.values@.fold_left(0nat, |acc: nat, v: Vec<u8>| acc + v@.len())
    }
    #[verifier::external_body]
    pub fn from_bytes(b: &[u8]) -> (r: Result<M, u8>)
        ensures r matches Ok(m) ==> m.total() < b@.len() && m.tags@.len() == m.values@.len()
    { unimplemented!() }

    pub fn num_fields(&self) -> u32 { assume(self.tags@.len() < 1000); self.tags.len() as u32 }

    pub fn to_string(&self, indent_level: usize) -> String
        requires indent_level > 0, indent_level < 1000, self.tags@.len() == self.values@.len()
        decreases self.total()
    {
        assert!(
            indent_level > 0,
            "indent level must be >= 1 (indent_level={})",
            indent_level
        );

        let indent1 = " ".repeat(2 * (indent_level - 1));
        let indent2 = " ".repeat(2 * indent_level);

        let mut result = String::from("RtMessage|");
        result.push_str(&self.num_fields().to_string());
        result.push_str("|{\n");

        for (tag, value) in self.tags.iter().zip(self.values.iter()) {
            result.push_str(&indent2);
            result.push_str(&tag.to_string());
            result.push('(');
            result.push_str(&value.len().to_string());
            result.push_str(") = ");

            if tag.is_nested() {
                let nested_msg = M::from_bytes(value).unwrap();
                result.push_str(&nested_msg.to_string(indent_level + 1))
            } else {
                result.push_str(&hex_encode(value));
                result.push('\n');
            }
        }

        result.push_str(&indent1);
        result.push_str("}\n");

        result
    }
}
}
fn main() {}
