mod verif_kani {
    use super::*;

    const N: usize = 16;

    fn stub_from_io(_e: std::io::Error) -> Error { Error::EncodingFailure(String::new()) }

    #[kani::proof]
    #[kani::unwind(6)]
    #[kani::stub(<crate::error::Error as std::convert::From<std::io::Error>>::from, stub_from_io)]
    fn from_bytes_total_and_exact() {
        let arr: [u8; N] = kani::any();
        let len: usize = kani::any();
        kani::assume(len <= N);
        let bytes = &arr[..len];
        match RtMessage::from_bytes(bytes) {
            Ok(m) => {
                let n = m.tags.len();
                assert!(m.values.len() == n);
                if n > 0 {
                    let hdr = if n == 1 { 8 } else { 4 + 4 * (n - 1) + 4 * n };
                    let mut total = 0usize;
                    for v in &m.values { total += v.len(); }
                    assert!(hdr + total == len);
                }
            }
            Err(_) => {}
        }
    }
}
