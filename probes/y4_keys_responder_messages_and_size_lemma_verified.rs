use vstd::prelude::*;
verus! {
global size_of usize == 8;

// ================= contracts imported from other units (proved there) =================
#[derive(Debug, PartialEq, Eq, Clone, Copy)]
pub enum Tag { SIG, VER, SRV, NONC, DELE, PATH, RADI, PUBK, MIDP, SREP, VERS, MINT, ROOT, CERT, MAXT, INDX, ZZZZ, PAD }
pub open spec fn tag_rank(t: Tag) -> int {
    match t { Tag::SIG => 0, Tag::VER => 1, Tag::SRV => 2, Tag::NONC => 3, Tag::DELE => 4, Tag::PATH => 5, Tag::RADI => 6,
        Tag::PUBK => 7, Tag::MIDP => 8, Tag::SREP => 9, Tag::VERS => 10, Tag::MINT => 11, Tag::ROOT => 12, Tag::CERT => 13,
        Tag::MAXT => 14, Tag::INDX => 15, Tag::ZZZZ => 16, Tag::PAD => 17 }
}
#[derive(Debug)]
pub enum Error { TagNotStrictlyIncreasing(Tag), Other }
#[verifier::ext_equal]
pub struct SpecMsg { pub tags: Seq<Tag>, pub values: Seq<Seq<u8>> }
pub uninterp spec fn enc(m: SpecMsg) -> Seq<u8>;
pub open spec fn strictly_inc(tags: Seq<Tag>) -> bool {
    forall|i: int, j: int| #![trigger tags[i], tags[j]] 0 <= i < j < tags.len() ==> tag_rank(tags[i]) < tag_rank(tags[j])
}
pub open spec fn pre(vals: Seq<Seq<u8>>, i: int) -> int decreases i { if i <= 0 { 0 } else { pre(vals, i - 1) + vals[i - 1].len() } }

pub struct RtMessage { pub tags: Vec<Tag>, pub values: Vec<Vec<u8>> }
impl RtMessage {
    pub open spec fn view(&self) -> SpecMsg { SpecMsg { tags: self.tags@, values: Seq::new(self.values@.len(), |i: int| self.values@[i]@) } }
    pub open spec fn wf(&self) -> bool { self.tags@.len() == self.values@.len() && strictly_inc(self.tags@) }
    #[verifier::external_body]
    pub fn with_capacity(n: u32) -> (r: Self) ensures r.wf(), pre(r.view().values, 0) == 0, r.tags@.len() == 0, r.view().tags == Seq::<Tag>::empty(), r.view().values == Seq::<Seq<u8>>::empty() { unimplemented!() }
    #[verifier::external_body]
    pub fn add_field(&mut self, tag: Tag, value: &[u8]) -> (r: Result<(), Error>)
        requires old(self).wf()
        ensures final(self).wf(),
            (old(self).tags@.len() == 0 || tag_rank(old(self).tags@.last()) < tag_rank(tag)) ==>
                r is Ok && final(self).view().tags == old(self).view().tags.push(tag) && final(self).view().values == old(self).view().values.push(value@)
                && pre(final(self).view().values, final(self).tags@.len() as int) == pre(old(self).view().values, old(self).tags@.len() as int) + value@.len(),
    { unimplemented!() }
    #[verifier::external_body]
    pub fn encode(&self) -> (r: Result<Vec<u8>, Error>)
        requires self.wf(), self.tags@.len() <= 1024, pre(self.view().values, self.tags@.len() as int) <= u32::MAX
        ensures r matches Ok(out) && out@ == enc(self.view()),
            forall|m2: SpecMsg| m2 =~~= self.view() ==> r->Ok_0@ == #[trigger] enc(m2),
    { unimplemented!() }
    #[verifier::external_body]
    pub fn get_field(&self, tag: Tag) -> (r: Option<&[u8]>)
        ensures forall|i: int| 0 <= i < self.tags@.len() && #[trigger] self.tags@[i] == tag ==> (r matches Some(v) && v@ == self.view().values[i])
    { unimplemented!() }
}

pub uninterp spec fn ed_pk(seed: Seq<u8>) -> Seq<u8>;
pub uninterp spec fn ed_sign(seed: Seq<u8>, msg: Seq<u8>) -> Seq<u8>;
pub struct MsgSigner { pub s: Ghost<Seq<u8>>, pub b: Ghost<Seq<u8>> }
impl MsgSigner {
    pub open spec fn seed(&self) -> Seq<u8> { self.s@ }
    pub open spec fn pending(&self) -> Seq<u8> { self.b@ }
    #[verifier::external_body]
    pub fn update(&mut self, data: &[u8]) ensures final(self).pending() == old(self).pending() + data@, final(self).seed() == old(self).seed() { unimplemented!() }
    #[verifier::external_body]
    pub fn sign(&mut self) -> (r: Vec<u8>) ensures r@ == ed_sign(old(self).seed(), old(self).pending()), final(self).pending() == Seq::<u8>::empty(), final(self).seed() == old(self).seed(), r@.len() == 64 { unimplemented!() }
    #[verifier::external_body]
    pub fn public_key_bytes(&self) -> (r: Vec<u8>) ensures r@ == ed_pk(self.seed()), r@.len() == 32 { unimplemented!() }
}

#[derive(Debug, PartialEq, Eq, Clone, Copy)]
pub enum Version { Google, RfcDraft13 }
pub uninterp spec fn dele_prefix(v: Version) -> Seq<u8>;
pub uninterp spec fn sign_prefix(v: Version) -> Seq<u8>;
pub open spec fn ver_wire(v: Version) -> Seq<u8> { match v { Version::Google => seq![0u8, 0, 0, 0], Version::RfcDraft13 => seq![0x0cu8, 0, 0, 0x80] } }
impl Version {
    #[verifier::external_body] pub fn wire_bytes(&self) -> (r: &'static [u8]) ensures r@ == ver_wire(*self) { unimplemented!() }
    #[verifier::external_body] pub fn dele_prefix(&self) -> (r: &'static [u8]) ensures r@ == dele_prefix(*self) { unimplemented!() }
    #[verifier::external_body] pub fn sign_prefix(&self) -> (r: &'static [u8]) ensures r@ == sign_prefix(*self) { unimplemented!() }
    #[verifier::external_body] pub fn supported_versions_wire() -> (r: Vec<u8>) ensures r@ == ver_wire(Version::Google) + ver_wire(Version::RfcDraft13) { unimplemented!() }
}
pub axiom fn version_eq_obeys() ensures <Version as vstd::std_specs::cmp::PartialEqSpec<Version>>::obeys_eq_spec();
pub broadcast axiom fn version_eq(a: Version, b: Version)
    ensures #[trigger] <Version as vstd::std_specs::cmp::PartialEqSpec<Version>>::eq_spec(&a, &b) == (a == b);

pub broadcast proof fn seq_empty_add(s: Seq<u8>)
    ensures #[trigger] (Seq::<u8>::empty() + s) == s
{ assert(Seq::<u8>::empty() + s =~= s); }
// byteorder shim
pub open spec fn le32(x: int) -> Seq<u8> { seq![(x % 256) as u8, ((x / 256) % 256) as u8, ((x / 65536) % 256) as u8, ((x / 16777216) % 256) as u8] }
pub uninterp spec fn le64(x: int) -> Seq<u8>;
pub broadcast axiom fn le64_len(x: int) ensures #[trigger] le64(x).len() == 8;
#[derive(Debug)]
pub struct IoError;
pub struct LittleEndian;
pub trait WriteBytesExt { fn write_u32<T>(&mut self, x: u32) -> Result<(), IoError>; fn write_u64<T>(&mut self, x: u64) -> Result<(), IoError>; }
impl WriteBytesExt for &mut [u8] {
    #[verifier::external_body]
    fn write_u32<T>(&mut self, x: u32) -> (r: Result<(), IoError>) { unimplemented!() }
    #[verifier::external_body]
    fn write_u64<T>(&mut self, x: u64) -> (r: Result<(), IoError>) { unimplemented!() }
}
// R4: (&mut A as &mut [u8]).write_u32::<LittleEndian>(x).unwrap()  ==> shim::write_u32_into(&mut A, x)
#[verifier::external_body]
pub fn write_u32_into(a: &mut [u8; 4], x: u32) ensures final(a)@ == le32(x as int) { unimplemented!() }
#[verifier::external_body]
pub fn write_u64_into(a: &mut [u8; 8], x: u64) ensures final(a)@ == le64(x as int) { unimplemented!() }

// ================= key/online.rs =================
pub struct OnlineKey {
    signer: MsgSigner,
    vers_wire_bytes: Vec<u8>,
}
pub open spec fn dele_msg(pk: Seq<u8>) -> SpecMsg {
    SpecMsg { tags: seq![Tag::PUBK, Tag::MINT, Tag::MAXT], values: seq![pk, Seq::new(8, |i: int| 0u8), Seq::new(8, |i: int| 0xffu8)] }
}
impl OnlineKey {
    pub closed spec fn seed(&self) -> Seq<u8> { self.signer.seed() }
    pub closed spec fn pending(&self) -> Seq<u8> { self.signer.pending() }

    /// Create a DELE message containing the public key of this online key
    pub fn make_dele(&self) -> (r: RtMessage)
        ensures r.wf(), r.view() =~~= dele_msg(ed_pk(self.seed())), r.tags@.len() == 3, pre(r.view().values, 3) == 48
    {
        let zeros = [0u8; 8];
        let max = [0xff; 8];
        let pub_key_bytes = self.signer.public_key_bytes();

        let mut dele_msg = RtMessage::with_capacity(3);
        dele_msg.add_field(Tag::PUBK, &pub_key_bytes).unwrap();
        dele_msg.add_field(Tag::MINT, &zeros).unwrap();
        dele_msg.add_field(Tag::MAXT, &max).unwrap();

        dele_msg
    }
}

pub struct SystemTime { pub secs: u64, pub nanos: u32 }
pub open spec fn midp_of(v: Version, now: SystemTime) -> int {
    match v { Version::Google => now.secs * 1_000_000 + now.nanos / 1000, Version::RfcDraft13 => now.secs as int }
}
pub open spec fn radi_of(v: Version) -> int { match v { Version::Google => 5_000_000, Version::RfcDraft13 => 5 } }
pub open spec fn srep_msg(v: Version, now: SystemTime, root: Seq<u8>) -> SpecMsg {
    match v {
        Version::Google => SpecMsg { tags: seq![Tag::RADI, Tag::MIDP, Tag::ROOT],
            values: seq![le32(radi_of(v)), le64(midp_of(v, now)), root] },
        Version::RfcDraft13 => SpecMsg { tags: seq![Tag::VER, Tag::RADI, Tag::MIDP, Tag::VERS, Tag::ROOT],
            values: seq![ver_wire(v), le32(radi_of(v)), le64(midp_of(v, now)), ver_wire(Version::Google) + ver_wire(Version::RfcDraft13), root] },
    }
}
pub open spec fn signed_srep(seed: Seq<u8>, v: Version, now: SystemTime, root: Seq<u8>) -> SpecMsg {
    let srep = enc(srep_msg(v, now, root));
    SpecMsg { tags: seq![Tag::SIG, Tag::SREP], values: seq![ed_sign(seed, sign_prefix(v) + srep), srep] }
}

impl OnlineKey {
    #[verifier::external_body]
    fn classic_midp(&self, now: SystemTime) -> (r: u64) ensures r == midp_of(Version::Google, now) { unimplemented!() }
    #[verifier::external_body]
    fn rfc_midp(&self, now: SystemTime) -> (r: u64) ensures r == midp_of(Version::RfcDraft13, now) { unimplemented!() }

    pub closed spec fn vers(&self) -> Seq<u8> { self.vers_wire_bytes@ }

    /// Create an SREP response containing the provided time and Merkle root,
    /// signed by this online key.
    pub fn make_srep(
        &mut self,
        version: Version,
        now: SystemTime,
        merkle_root: &[u8],
    ) -> (r: RtMessage)
        requires old(self).pending() == Seq::<u8>::empty(), merkle_root@.len() <= 64,
            old(self).vers() == ver_wire(Version::Google) + ver_wire(Version::RfcDraft13),
        ensures r.wf(), r.view() =~~= signed_srep(old(self).seed(), version, now, merkle_root@),
            final(self).pending() == Seq::<u8>::empty(), final(self).seed() == old(self).seed(), final(self).vers() == old(self).vers(),
    {
        broadcast use version_eq, le64_len, seq_empty_add;
        proof { version_eq_obeys(); }
        let mut radi = [0; 4];
        let mut midp = [0; 8];

        // RADI is hard coded at 5 seconds (providing a 10-second measurement window overall)
        let radi_time = match version {
            Version::Google => 5_000_000, // five seconds in microseconds
            Version::RfcDraft13 => 5,      // five seconds
        };

        write_u32_into(&mut radi, radi_time);

        let midp_time = match version {
            Version::Google => self.classic_midp(now),
            Version::RfcDraft13 => self.rfc_midp(now),
        };

        write_u64_into(&mut midp, midp_time);

        // Signed response SREP
        let srep_bytes = if version == Version::Google {
            let mut srep_msg = RtMessage::with_capacity(3);
            srep_msg.add_field(Tag::RADI, &radi).unwrap();
            srep_msg.add_field(Tag::MIDP, &midp).unwrap();
            srep_msg.add_field(Tag::ROOT, merkle_root).unwrap();
            srep_msg.encode().unwrap()
        } else {
            let mut srep_msg = RtMessage::with_capacity(5);
            srep_msg.add_field(Tag::VER, version.wire_bytes()).unwrap();
            srep_msg.add_field(Tag::RADI, &radi).unwrap();
            srep_msg.add_field(Tag::MIDP, &midp).unwrap();
            srep_msg.add_field(Tag::VERS, &self.vers_wire_bytes).unwrap();
            srep_msg.add_field(Tag::ROOT, merkle_root).unwrap();
            srep_msg.encode().unwrap()
        };

        // signature on SREP
        let srep_signature = {
            self.signer.update(version.sign_prefix());
            self.signer.update(&srep_bytes);
            self.signer.sign()
        };

        let mut result = RtMessage::with_capacity(2);
        result.add_field(Tag::SIG, &srep_signature).unwrap();
        result.add_field(Tag::SREP, &srep_bytes).unwrap();

        result
    }
}
pub proof fn lemma_pre_small3(v: Seq<Seq<u8>>)
    requires v.len() == 3, v[0].len() <= 64, v[1].len() <= 64, v[2].len() <= 64
    ensures pre(v, 3) <= 192
{ reveal_with_fuel(pre, 4); }
pub proof fn lemma_pre_small5(v: Seq<Seq<u8>>)
    requires v.len() == 5, v[0].len() <= 64, v[1].len() <= 64, v[2].len() <= 64, v[3].len() <= 64, v[4].len() <= 64
    ensures pre(v, 5) <= 320
{ reveal_with_fuel(pre, 6); }

// imported from the message unit (lemma_lens there)
pub broadcast axiom fn enc_len(m: SpecMsg)
    requires m.tags.len() == m.values.len(), m.tags.len() >= 1
    ensures #[trigger] enc(m).len() == 8 * m.tags.len() + pre(m.values, m.tags.len() as int);

// ================= key/longterm.rs =================
pub struct LongTermKey { signer: MsgSigner, srv_value: Vec<u8> }
pub open spec fn cert_msg(seed: Seq<u8>, v: Version, online_pk: Seq<u8>) -> SpecMsg {
    let dele = enc(dele_msg(online_pk));
    SpecMsg { tags: seq![Tag::SIG, Tag::DELE], values: seq![ed_sign(seed, dele_prefix(v) + dele), dele] }
}
impl LongTermKey {
    pub closed spec fn seed(&self) -> Seq<u8> { self.signer.seed() }
    pub closed spec fn pending(&self) -> Seq<u8> { self.signer.pending() }

    /// Create a CERT message with a DELE containing the provided online key
    /// and a SIG of the DELE value signed by the long-term key
    pub fn make_cert(&mut self, version: &Version, online_key: &OnlineKey) -> (r: RtMessage)
        requires old(self).pending() == Seq::<u8>::empty()
        ensures r.wf(), r.view() =~~= cert_msg(old(self).seed(), *version, ed_pk(online_key.seed())),
            final(self).pending() == Seq::<u8>::empty(), final(self).seed() == old(self).seed(),
    {
        broadcast use seq_empty_add;
        let dele_bytes = online_key.make_dele().encode().unwrap();

        self.signer.update(version.dele_prefix());
        self.signer.update(&dele_bytes);

        let dele_signature = self.signer.sign();

        let mut cert_msg = RtMessage::with_capacity(2);
        cert_msg.add_field(Tag::SIG, &dele_signature).unwrap();
        cert_msg.add_field(Tag::DELE, &dele_bytes).unwrap();

        cert_msg
    }
}

// ================= responder.rs: make_response =================
pub open spec fn response_msg(sig: Seq<u8>, nonce: Seq<u8>, path: Seq<u8>, srep: Seq<u8>, cert: Seq<u8>, idx: int) -> SpecMsg {
    SpecMsg { tags: seq![Tag::SIG, Tag::NONC, Tag::PATH, Tag::SREP, Tag::CERT, Tag::INDX],
              values: seq![sig, nonce, path, srep, cert, le32(idx)] }
}
pub struct Responder { x: u8 }
impl Responder {
    fn make_response(
        &self,
        srep: &RtMessage,
        cert_bytes: &[u8],
        path: &[u8],
        idx: u32,
        nonce: &Vec<u8>,
    ) -> (r: RtMessage)
        requires srep.wf(), srep.view().tags == seq![Tag::SIG, Tag::SREP],
        ensures r.wf(), r.view() =~~= response_msg(srep.view().values[0], nonce@, path@, srep.view().values[1], cert_bytes@, idx as int)
    {
        let mut index = [0; 4];
        write_u32_into(&mut index, idx);

        let sig_bytes = srep.get_field(Tag::SIG).unwrap();
        let srep_bytes = srep.get_field(Tag::SREP).unwrap();

        let mut response = RtMessage::with_capacity(6);
        response.add_field(Tag::SIG, sig_bytes).unwrap();
        response.add_field(Tag::NONC, nonce).unwrap();
        response.add_field(Tag::PATH, path).unwrap();
        response.add_field(Tag::SREP, srep_bytes).unwrap();
        response.add_field(Tag::CERT, cert_bytes).unwrap();
        response.add_field(Tag::INDX, &index).unwrap();

        response
    }
}

// ================= C07: response size =================
pub proof fn lemma_sizes(seed: Seq<u8>, oseed: Seq<u8>, v: Version, now: SystemTime, root: Seq<u8>, nonce: Seq<u8>, path: Seq<u8>, idx: int)
    requires
        root.len() == (if v == Version::Google { 64int } else { 32 }),
        ed_pk(oseed).len() == 32,
        ed_sign(seed, dele_prefix(v) + enc(dele_msg(ed_pk(oseed)))).len() == 64,
        ed_sign(oseed, sign_prefix(v) + enc(srep_msg(v, now, root))).len() == 64,
        path.len() <= 64 * 8,
        nonce.len() == (if v == Version::Google { 64int } else { 32 }),
    ensures
        enc(srep_msg(v, now, root)).len() == (if v == Version::Google { 100int } else { 96 }),
        enc(cert_msg(seed, v, ed_pk(oseed))).len() == 152,
        enc(response_msg(signed_srep(oseed, v, now, root).values[0], nonce, path, signed_srep(oseed, v, now, root).values[1],
            enc(cert_msg(seed, v, ed_pk(oseed))), idx)).len() + 12 <= 1024,
{
    broadcast use enc_len, le64_len;
    reveal_with_fuel(pre, 8);
}
}
fn main() {}
