use vstd::prelude::*;
verus! {
fn f(v: &Vec<(Vec<u8>, u32)>) -> (r: usize) {
    let mut acc: usize = 0;
    for (idx, (nonce, addr)) in it: v.iter().enumerate()
    {
        acc = idx;
    }
    acc
}
}
fn main() {}
