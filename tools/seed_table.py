#!/usr/bin/env python3
"""Markdown table of every seeded change under seeded/<id>/meta.json (verdict of the LAST evaluation recorded there)."""
import json, glob, os
V = os.path.dirname(os.path.dirname(os.path.abspath(__file__)))
rows = []
tot = {"VIOLATION": 0, "undecided": 0, "MISSED": 0}
for d in sorted(glob.glob(os.path.join(V, "seeded", "C*-*"))):
    m = json.load(open(os.path.join(d, "meta.json")))
    ev = m.get("evaluation", {})
    prop = m.get("property")
    c = ev.get("checks", {}).get(prop, {})
    rc = c.get("rc")
    verdict = {1: "VIOLATION", 2: "undecided", 0: "MISSED"}.get(rc, "?")
    tot[verdict] = tot.get(verdict, 0) + 1
    first = ""
    for l in c.get("lines", []):
        if l.startswith(("FAILED OBLIGATION", "UNDECIDED")):
            first = l.replace("FAILED OBLIGATION ", "").replace("UNDECIDED ", "")[:150].replace("|", "\\|")
            break
    summ = (m.get("summary") or "")[:170].replace("\n", " ").replace("|", "\\|")
    rows.append("| %s | %s | %s | %s |" % (os.path.basename(d), summ, verdict if verdict != "VIOLATION" else "**VIOLATION**", first))
print("| seed | change (sub-agent's summary, truncated) | check verdict | first reported obligation / reason |")
print("|---|---|---|---|")
print("\n".join(rows))
print()
print("Totals: %d seeds -- %d VIOLATION, %d undecided (exit 2), %d missed." % (len(rows), tot["VIOLATION"], tot["undecided"], tot["MISSED"]))
