#!/usr/bin/env python3
"""Confirms a seeded change independently and runs the checks against it.
usage: seed_eval.py <seed-dir under /tmp/seeded> [props to run, default = the seed's property]
 1. scratch worktree of /repo HEAD: demo passes on clean tree; with the patch: builds, the 47 tests pass, demo fails
 2. applies the patch to /repo, runs ./check for each property, restores /repo (git checkout -- .)
 3. stores everything under /verif/seeded/<id>/
"""
import json, os, shutil, subprocess, sys, time
V = "/verif"
def sh(cmd, cwd=None, env=None, timeout=3600):
    p = subprocess.run(cmd, cwd=cwd, shell=True, capture_output=True, text=True, env=env, timeout=timeout)
    return p.returncode, p.stdout + p.stderr
def main():
    sd = sys.argv[1].rstrip("/")
    sid = os.path.basename(sd)
    meta = json.load(open(os.path.join(sd, "meta.json")))
    prop = meta["property"]
    props = sys.argv[2:] or [prop]
    wt = "/tmp/wt/eval-" + sid
    env = dict(os.environ, CARGO_TARGET_DIR="/tmp/wt/eval-target")
    sh("git -C /repo worktree remove --force %s" % wt)
    rc, o = sh("git -C /repo worktree add -q --detach %s HEAD" % wt)
    assert rc == 0, o
    res = {"seed": sid, "property": prop, "repo_head": sh("git -C /repo rev-parse --short HEAD")[1].strip()}
    try:
        os.makedirs(wt + "/tests", exist_ok=True)
        demo = os.path.join(sd, "demo.rs")
        shutil.copy(demo, wt + "/tests/demo.rs")
        rc, o = sh("cargo test --offline --test demo 2>&1 | tail -30", cwd=wt, env=env)
        res["demo_on_clean_tree_passes"] = ("test result: ok" in o)
        rc, o = sh("git apply %s/patch.diff" % sd, cwd=wt)
        res["patch_applies"] = rc == 0
        rc, o = sh("cargo test --offline 2>&1 | grep -E '^test result|FAILED|error' | head -20", cwd=wt, env=env)
        # the demo is part of `cargo test` now; count the suite separately
        os.remove(wt + "/tests/demo.rs")
        rc, o = sh("cargo test --offline 2>&1 | grep -E '^test result|error(\\[|:)' | head -20", cwd=wt, env=env)
        res["suite_with_patch"] = o.strip().splitlines()[:3]
        res["suite_passes_with_patch"] = ("47 passed; 0 failed" in o) and ("error" not in o)
        shutil.copy(demo, wt + "/tests/demo.rs")
        rc, o = sh("cargo test --offline --test demo 2>&1 | tail -40", cwd=wt, env=env)
        res["demo_fails_with_patch"] = ("test result: FAILED" in o) or ("panicked" in o and "test result: ok" not in o)
        res["demo_output_tail"] = o[-1200:]
    finally:
        sh("git -C /repo worktree remove --force %s" % wt)
    res["confirmed"] = bool(res.get("demo_on_clean_tree_passes") and res.get("patch_applies") and res.get("suite_passes_with_patch") and res.get("demo_fails_with_patch"))
    # run the checks against the patched tree.  Default: a private copy (so that several evaluations / the developer loop do
    # not trample on /repo); with SEED_EVAL_IN_REPO=1 the patch is applied to /repo itself and undone afterwards (the
    # protocol of the brief; rounds 1 and 2 were evaluated that way).
    res["checks"] = {}
    if os.environ.get("SEED_EVAL_IN_REPO") == "1":
        assert sh("git -C /repo status --porcelain")[1].strip() == "", "/repo not clean"
        rc, o = sh("git -C /repo apply %s/patch.diff" % sd)
        repo_arg = ""
    else:
        cp = "/tmp/seed-repo-" + sid
        sh("rm -rf %s && mkdir -p %s && rsync -a --exclude target --exclude .git /repo/ %s/" % (cp, cp, cp))
        rc, o = sh("patch -p1 < %s/patch.diff" % sd, cwd=cp)
        repo_arg = " --repo " + cp
    try:
        if rc == 0:
            for p in props:
                t0 = time.time()
                rc2, o2 = sh("./check %s%s" % (p, repo_arg), cwd=V)
                lines = [l for l in o2.splitlines() if l.startswith(("VIOLATION", "FAILED OBLIGATION", "UNDECIDED", "KNOWN-FINDING"))]
                res["checks"][p] = {"rc": rc2, "wall_s": round(time.time() - t0, 1), "lines": lines[:12]}
        else:
            res["checks"]["apply_error"] = o
    finally:
        if repo_arg:
            sh("rm -rf /tmp/seed-repo-" + sid)
        else:
            sh("git -C /repo checkout -- .")
            assert sh("git -C /repo status --porcelain")[1].strip() == "", "/repo not restored"
    out = os.path.join(V, "seeded", sid)
    os.makedirs(out, exist_ok=True)
    for f in ("patch.diff", "demo.rs"):
        shutil.copy(os.path.join(sd, f), os.path.join(out, f))
    meta["evaluation"] = res
    meta["what_i_ran"] = ["tools/seed_eval.py %s %s" % (sd, " ".join(props))]
    json.dump(meta, open(os.path.join(out, "meta.json"), "w"), indent=1)
    print(sid, "confirmed=%s" % res["confirmed"], {p: (c["rc"] if isinstance(c, dict) else c) for p, c in res["checks"].items()})
    for p, c in res["checks"].items():
        if isinstance(c, dict):
            for l in c["lines"][:4]:
                print("   ", l[:220])
if __name__ == "__main__":
    main()
