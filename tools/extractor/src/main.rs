//! Mechanical extractor: assembles one Verus file from a template (`*.vt`) and /repo's working tree.
//!
//! The template is Verus text with `//@` directives.  Function bodies, signatures, structs, enums and
//! consts are never typed by hand: every `//@fn` / `//@item` directive is replaced by the source text of
//! the named item, cut out of the real file by its `syn` span.  Contracts and proof hints are inserted at
//! positional anchors; a fixed list of token-level rewrite rules (R1..R13, see DESIGN.md) is applied.
//!
//! Exit status: 0 ok, 3 = lost anchor / item not found / parse error (the runner reports "undecided").
//!
//! Directives
//!   //@include <path> [mode=assume]
//!   //@item <file> <Name> [derive=A,B] [noattrs] [vis=pub]      struct / enum / const / static / type / trait
//!   //@fn <file> <Qual> [mode=assume] [props=C05,C06] [abort=allowed] [vis=pub]
//!       Qual ::= name | Type::name | Trait@Type::name
//!     //@ret <ident>                       `-> T` becomes `-> (ident: T)`
//!     //@sig                               text placed between signature and body
//!     //@entry                             text placed right after the opening brace
//!     //@loop <k> label <ident>            `for p in ident: expr`
//!     //@loop <k> inv | top | end          invariant text before the body / top of body / end of body
//!     //@before_loop <k> | //@after_loop <k>
//!     //@before_let <name>[#n] | //@after_let <name>[#n]
//!     //@before_call <name>[#n] | //@after_call <name>[#n]     innermost statement containing that call
//!     //@before_tail
//!   //@end
//!   //@region <name> [props=..] ... //@endregion       tags template text (lemmas) for attribution
//!   //@proofonly ... //@endproofonly                    dropped when included with mode=assume

use proc_macro2::{LineColumn, Span};
use serde_json::json;
use std::collections::BTreeMap;
use std::fmt::Write as _;
use std::path::{Path, PathBuf};
use syn::punctuated::Punctuated;
use syn::spanned::Spanned;
use syn::visit::Visit;

fn fail(msg: String) -> ! {
    eprintln!("EXTRACTOR-UNDECIDED: {}", msg);
    std::process::exit(3)
}

// ---------------------------------------------------------------------------------------------
// source files
// ---------------------------------------------------------------------------------------------
struct Src {
    rel: String,
    text: String,
    ast: syn::File,
    line_starts: Vec<usize>,
}

impl Src {
    fn load(repo: &Path, rel: &str) -> Src {
        let p = repo.join(rel);
        let text = std::fs::read_to_string(&p)
            .unwrap_or_else(|e| fail(format!("cannot read {}: {}", p.display(), e)));
        let ast = syn::parse_file(&text)
            .unwrap_or_else(|e| fail(format!("cannot parse {}: {}", p.display(), e)));
        let mut line_starts = vec![0usize];
        for (i, b) in text.bytes().enumerate() {
            if b == b'\n' {
                line_starts.push(i + 1);
            }
        }
        Src { rel: rel.to_string(), text, ast, line_starts }
    }
    fn off(&self, lc: LineColumn) -> usize {
        let ls = self.line_starts[lc.line - 1];
        let line = &self.text[ls..];
        let mut o = ls;
        for (n, (i, _)) in line.char_indices().enumerate() {
            if n == lc.column {
                o = ls + i;
                return o;
            }
            o = ls + i;
        }
        // column at end of text
        let _ = o;
        ls + line.chars().take(lc.column).map(|c| c.len_utf8()).sum::<usize>()
    }
    fn range(&self, sp: Span) -> (usize, usize) {
        (self.off(sp.start()), self.off(sp.end()))
    }
    fn line_of(&self, off: usize) -> usize {
        match self.line_starts.binary_search(&off) {
            Ok(i) => i + 1,
            Err(i) => i,
        }
    }
}

// ---------------------------------------------------------------------------------------------
// edits
// ---------------------------------------------------------------------------------------------
#[derive(Clone, Debug)]
enum Piece {
    Lit(String),
    Sub(usize, usize),
}
#[derive(Clone, Debug)]
struct Edit {
    start: usize,
    end: usize,
    pieces: Vec<Piece>,
    prio: i32,
    seq: usize,
    what: String,
}

struct Editor<'a> {
    src: &'a str,
    edits: Vec<Edit>,
    used: Vec<bool>,
}

impl<'a> Editor<'a> {
    fn new(src: &'a str) -> Self {
        Editor { src, edits: vec![], used: vec![] }
    }
    fn insert(&mut self, pos: usize, text: String, prio: i32, what: &str) {
        let seq = self.edits.len();
        self.edits.push(Edit { start: pos, end: pos, pieces: vec![Piece::Lit(text)], prio, seq, what: what.into() });
        self.used.push(false);
    }
    fn replace(&mut self, start: usize, end: usize, pieces: Vec<Piece>, what: &str) {
        let seq = self.edits.len();
        self.edits.push(Edit { start, end, pieces, prio: 5, seq, what: what.into() });
        self.used.push(false);
    }
    /// render [lo,hi): outermost edits inside the range are applied, Sub pieces recurse.
    fn render(&mut self, lo: usize, hi: usize, exclude: Option<usize>) -> String {
        // candidate edits fully inside [lo,hi]
        let mut cand: Vec<usize> = (0..self.edits.len())
            .filter(|&i| Some(i) != exclude && self.edits[i].start >= lo && self.edits[i].end <= hi)
            // inside a Sub piece, zero-width insertions sitting exactly on its boundary belong to the outer level
            .filter(|&i| exclude.is_none() || self.edits[i].start != self.edits[i].end || (lo < self.edits[i].start && self.edits[i].start < hi))
            .collect();
        // a replace edit that spans exactly [lo,hi) and is the excluded one has been removed already.
        // outermost: not strictly inside another candidate replace edit
        let snapshot = cand.clone();
        cand.retain(|&i| {
            let e = &self.edits[i];
            !snapshot.iter().any(|&j| {
                if i == j {
                    return false;
                }
                let o = &self.edits[j];
                if o.start == o.end {
                    return false;
                }
                if e.start == e.end {
                    // insertion strictly inside another replacement
                    o.start < e.start && e.start < o.end
                } else {
                    (o.start <= e.start && e.end <= o.end) && (o.end - o.start > e.end - e.start)
                }
            })
        });
        cand.sort_by_key(|&i| {
            let e = &self.edits[i];
            // at the same position: insertions first (ordered by prio, seq), then the replacement
            (e.start, if e.start == e.end { 0 } else { 1 }, e.prio, e.seq)
        });
        let mut out = String::new();
        let mut cur = lo;
        for i in cand {
            let e = self.edits[i].clone();
            if e.start < cur {
                fail(format!("overlapping edits at byte {} ({})", e.start, e.what));
            }
            out.push_str(&self.src[cur..e.start]);
            self.used[i] = true;
            for p in &e.pieces {
                match p {
                    Piece::Lit(s) => out.push_str(s),
                    Piece::Sub(a, b) => {
                        let s = self.render(*a, *b, Some(i));
                        out.push_str(&s);
                    }
                }
            }
            cur = e.end;
        }
        out.push_str(&self.src[cur..hi]);
        out
    }
}

// ---------------------------------------------------------------------------------------------
// function location + anchors
// ---------------------------------------------------------------------------------------------
struct FnLoc<'a> {
    attrs: &'a [syn::Attribute],
    vis: &'a syn::Visibility,
    sig: &'a syn::Signature,
    block: &'a syn::Block,
    whole: Span,
}

fn last_seg(p: &syn::Path) -> String {
    p.segments.last().map(|s| s.ident.to_string()).unwrap_or_default()
}
fn type_name(t: &syn::Type) -> String {
    match t {
        syn::Type::Path(p) => last_seg(&p.path),
        syn::Type::Reference(r) => type_name(&r.elem),
        _ => String::new(),
    }
}

fn find_fn<'a>(items: &'a [syn::Item], qual: &str) -> Option<FnLoc<'a>> {
    // `name#k`: the k-th (0-based) top-level function of that name (cfg-gated variants share a name)
    if let Some((q, k)) = qual.rsplit_once('#') {
        if let Ok(k) = k.parse::<usize>() {
            let mut seen = 0usize;
            for it in items {
                if let syn::Item::Fn(f) = it {
                    if f.sig.ident == q {
                        if seen == k {
                            return Some(FnLoc { attrs: &f.attrs, vis: &f.vis, sig: &f.sig, block: &f.block, whole: f.span() });
                        }
                        seen += 1;
                    }
                }
            }
            return None;
        }
    }
    let (tr, rest) = match qual.split_once('@') {
        Some((t, r)) => (Some(t), r),
        None => (None, qual),
    };
    let (ty, name) = match rest.rsplit_once("::") {
        Some((t, n)) => (Some(t), n),
        None => (None, rest),
    };
    for it in items {
        match it {
            syn::Item::Fn(f) if ty.is_none() && f.sig.ident == name => {
                return Some(FnLoc { attrs: &f.attrs, vis: &f.vis, sig: &f.sig, block: &f.block, whole: f.span() });
            }
            syn::Item::Impl(im) if ty.is_some() => {
                if type_name(&im.self_ty) != ty.unwrap() {
                    continue;
                }
                let trname = im.trait_.as_ref().map(|(_, p, _)| last_seg(p));
                if trname.as_deref() != tr {
                    continue;
                }
                for ii in &im.items {
                    if let syn::ImplItem::Fn(f) = ii {
                        if f.sig.ident == name {
                            return Some(FnLoc { attrs: &f.attrs, vis: &f.vis, sig: &f.sig, block: &f.block, whole: f.span() });
                        }
                    }
                }
            }
            _ => {}
        }
    }
    None
}

#[derive(Debug)]
struct LoopInfo {
    kind: &'static str,
    head: Option<(usize, usize)>, // iterator expr / condition
    body_open: usize,             // offset of '{'
    body_close: usize,            // offset of '}'
    whole: (usize, usize),
}
#[derive(Debug)]
struct StmtInfo {
    range: (usize, usize),
    lets: Vec<String>,
}
#[derive(Debug)]
struct CallInfo {
    name: String,
    range: (usize, usize),
}

struct Scan<'a> {
    src: &'a Src,
    loops: Vec<LoopInfo>,
    stmts: Vec<StmtInfo>,
    calls: Vec<CallInfo>,
    closures: Vec<((usize, usize), (usize, usize))>,
}

/// finds `let [mut] NAME = ...` (plain identifier pattern, no type ascription yet) and returns the end offset of the pattern
struct LetFinder<'a> { src: &'a Src, name: String, found: Vec<usize> }
impl<'a, 'ast> Visit<'ast> for LetFinder<'a> {
    fn visit_local(&mut self, l: &'ast syn::Local) {
        if let syn::Pat::Ident(pi) = &l.pat {
            if pi.ident == self.name {
                self.found.push(self.src.range(l.pat.span()).1);
            }
        }
        syn::visit::visit_local(self, l);
    }
}
fn pat_idents(p: &syn::Pat, out: &mut Vec<String>) {
    match p {
        syn::Pat::Ident(i) => out.push(i.ident.to_string()),
        syn::Pat::Tuple(t) => t.elems.iter().for_each(|e| pat_idents(e, out)),
        syn::Pat::TupleStruct(t) => t.elems.iter().for_each(|e| pat_idents(e, out)),
        syn::Pat::Struct(s) => s.fields.iter().for_each(|f| pat_idents(&f.pat, out)),
        syn::Pat::Type(t) => pat_idents(&t.pat, out),
        syn::Pat::Reference(r) => pat_idents(&r.pat, out),
        _ => {}
    }
}

impl<'a, 'ast> Visit<'ast> for Scan<'a> {
    fn visit_stmt(&mut self, s: &'ast syn::Stmt) {
        let mut lets = vec![];
        if let syn::Stmt::Local(l) = s {
            pat_idents(&l.pat, &mut lets);
        }
        if let syn::Stmt::Item(syn::Item::Const(c)) = s {
            lets.push(c.ident.to_string()); // R13 turns a function-local const into a let
        }
        self.stmts.push(StmtInfo { range: self.src.range(s.span()), lets });
        syn::visit::visit_stmt(self, s);
    }
    fn visit_stmt_macro(&mut self, m: &'ast syn::StmtMacro) {
        self.calls.push(CallInfo { name: format!("{}!", last_seg(&m.mac.path)), range: self.src.range(m.span()) });
    }
    fn visit_expr_macro(&mut self, m: &'ast syn::ExprMacro) {
        self.calls.push(CallInfo { name: format!("{}!", last_seg(&m.mac.path)), range: self.src.range(m.span()) });
    }
    fn visit_expr_method_call(&mut self, m: &'ast syn::ExprMethodCall) {
        // receiver first: textual order
        syn::visit::visit_expr(self, &m.receiver);
        self.calls.push(CallInfo { name: m.method.to_string(), range: self.src.range(m.span()) });
        for a in &m.args {
            syn::visit::visit_expr(self, a);
        }
    }
    fn visit_expr_call(&mut self, c: &'ast syn::ExprCall) {
        if let syn::Expr::Path(p) = &*c.func {
            self.calls.push(CallInfo { name: last_seg(&p.path), range: self.src.range(c.span()) });
        }
        syn::visit::visit_expr_call(self, c);
    }
    fn visit_expr_closure(&mut self, c: &'ast syn::ExprClosure) {
        self.closures.push((self.src.range(c.span()), self.src.range(c.body.span())));
        syn::visit::visit_expr_closure(self, c);
    }
    fn visit_expr_for_loop(&mut self, f: &'ast syn::ExprForLoop) {
        let (o, c) = (self.src.off(f.body.brace_token.span.open().start()), self.src.off(f.body.brace_token.span.close().start()));
        self.loops.push(LoopInfo { kind: "for", head: Some(self.src.range(f.expr.span())), body_open: o, body_close: c, whole: self.src.range(f.span()) });
        syn::visit::visit_expr_for_loop(self, f);
    }
    fn visit_expr_while(&mut self, f: &'ast syn::ExprWhile) {
        let (o, c) = (self.src.off(f.body.brace_token.span.open().start()), self.src.off(f.body.brace_token.span.close().start()));
        self.loops.push(LoopInfo { kind: "while", head: Some(self.src.range(f.cond.span())), body_open: o, body_close: c, whole: self.src.range(f.span()) });
        syn::visit::visit_expr_while(self, f);
    }
    fn visit_expr_loop(&mut self, f: &'ast syn::ExprLoop) {
        let (o, c) = (self.src.off(f.body.brace_token.span.open().start()), self.src.off(f.body.brace_token.span.close().start()));
        self.loops.push(LoopInfo { kind: "loop", head: None, body_open: o, body_close: c, whole: self.src.range(f.span()) });
        syn::visit::visit_expr_loop(self, f);
    }
}

// ---------------------------------------------------------------------------------------------
// rewrite rules
// ---------------------------------------------------------------------------------------------
/// finds `return` / `?` (not inside closures, whose returns are their own)
struct ExitScan(bool);
impl<'x> Visit<'x> for ExitScan {
    fn visit_expr_return(&mut self, _: &'x syn::ExprReturn) { self.0 = true; }
    fn visit_expr_try(&mut self, _: &'x syn::ExprTry) { self.0 = true; }
    fn visit_expr_closure(&mut self, _: &'x syn::ExprClosure) {}
}
struct Rewriter<'a, 'e> {
    src: &'a Src,
    ed: &'e mut Editor<'a>,
    abort_allowed: bool,
    fired: BTreeMap<String, usize>,
    /// R22: (callee, extra ghost argument text) -- every call of `callee` gets the extra (erased) argument appended
    thread: Vec<(String, String)>,
    /// R27 (per-function flag `tostring`): X.to_string() -> X.shim_to_string()
    tostring: bool,
    /// R28: the spec function summed by `X.values().map(..).sum()` in this function (template section `//@sumspec`)
    sumspec: Option<String>,
    /// R29: names of all functions that have a contract somewhere in contracts/ (never inlined)
    known: &'a std::collections::BTreeSet<String>,
    /// R29: the impl type of the function being extracted (for `self.helper(..)` / `Self::helper(..)`)
    self_ty: Option<String>,
    inline_stack: Vec<String>,
    inline_visited: std::collections::BTreeSet<String>,
    /// closures whose header a rewrite rule drops or replaces (their body lives on inside the rule's replacement)
    consumed_closures: Vec<(usize, usize)>,
    /// closures that survive into the assembled text WITHOUT a contract (no `//@closure` header): their results would be
    /// unconstrained for the verifier, so the function is declared undecidable rather than verified
    bare_closures: Vec<usize>,
}

const LOG_MACROS: &[&str] = &["trace", "debug", "info", "warn", "error", "println", "eprintln", "print", "eprint"];

impl<'a, 'e> Rewriter<'a, 'e> {
    fn fire(&mut self, r: &str) {
        *self.fired.entry(r.to_string()).or_insert(0) += 1;
    }
    fn sub(&self, sp: Span) -> Piece {
        let (a, b) = self.src.range(sp);
        Piece::Sub(a, b)
    }
    fn lit(s: &str) -> Piece {
        Piece::Lit(s.to_string())
    }
    fn is_call_named(e: &syn::Expr, name: &str) -> Option<Vec<syn::Expr>> {
        if let syn::Expr::Call(c) = e {
            if let syn::Expr::Path(p) = &*c.func {
                if last_seg(&p.path) == name {
                    return Some(c.args.iter().cloned().collect());
                }
            }
        }
        None
    }
    /// R29: a same-file helper without a contract of its own, simple enough to be replaced by its body at the call site:
    /// no generics, plain `ident: Type` parameters, no `return`, no `?`, no loop, not recursive.
    fn find_helper(&self, name: &str, method: bool) -> Option<(&'a syn::Signature, &'a syn::Block)> {
        if self.known.contains(name) || self.inline_stack.iter().any(|n| n == name) {
            return None;
        }
        let mut found: Vec<(&'a syn::Signature, &'a syn::Block)> = vec![];
        for it in &self.src.ast.items {
            match it {
                syn::Item::Fn(f) if !method && f.sig.ident == name => found.push((&f.sig, &f.block)),
                syn::Item::Impl(im) if im.trait_.is_none() && self.self_ty.as_deref() == Some(type_name(&im.self_ty).as_str()) => {
                    for ii in &im.items {
                        if let syn::ImplItem::Fn(f) = ii {
                            if f.sig.ident == name { found.push((&f.sig, &f.block)); }
                        }
                    }
                }
                _ => {}
            }
        }
        if found.len() != 1 { return None; }
        let (sig, block) = found[0];
        if !sig.generics.params.is_empty() || sig.asyncness.is_some() || sig.unsafety.is_some() { return None; }
        let has_recv = sig.inputs.iter().any(|a| matches!(a, syn::FnArg::Receiver(_)));
        if has_recv != method { return None; }
        for a in &sig.inputs {
            if let syn::FnArg::Typed(pt) = a {
                if !matches!(&*pt.pat, syn::Pat::Ident(pi) if pi.by_ref.is_none() && pi.subpat.is_none()) { return None; }
            }
        }
        struct Bad(bool);
        impl<'x> Visit<'x> for Bad {
            fn visit_expr_for_loop(&mut self, _: &'x syn::ExprForLoop) { self.0 = true; }
            fn visit_expr_while(&mut self, _: &'x syn::ExprWhile) { self.0 = true; }
            fn visit_expr_loop(&mut self, _: &'x syn::ExprLoop) { self.0 = true; }
            fn visit_expr_await(&mut self, _: &'x syn::ExprAwait) { self.0 = true; }
            fn visit_expr_closure(&mut self, _: &'x syn::ExprClosure) { /* a `return` inside a closure is the closure's own */ }
        }
        let mut b = Bad(false);
        b.visit_block(block);
        if b.0 { return None; }
        Some((sig, block))
    }
    /// R29: `helper(a, b)` -> `{ let (p, q): (P, Q) = (a, b); let shim_ret: R = { BODY }; shim_ret }` -- beta reduction; the
    /// arguments are evaluated once, in order, before the body; the body text is the helper's, with the rewrite rules applied
    fn has_exit(e: &dyn Fn(&mut ExitScan)) -> bool { let mut x = ExitScan(false); e(&mut x); x.0 }
    /// the helper's statements as an expression block; early exits are restructured (no other rewriting):
    ///   `if C { S*; return E; }  REST`   ->  `if C { S*; E } else { REST }`
    ///   `let P = X?;  REST`              ->  `match X { Some(v) => { let P = v; REST }, None => None }`   (Option-returning helper)
    ///                                        `match X { Ok(v) => { let P = v; REST }, Err(e) => Err(From::from(e)) }`   (Result)
    /// any other `return` / `?` makes the helper not inlinable (None)
    fn helper_pieces(&self, stmts: &'a [syn::Stmt], ret: &str) -> Option<Vec<Piece>> {
        let mut pieces = vec![Self::lit("{ ")];
        for (i, st) in stmts.iter().enumerate() {
            // guard clause
            if let syn::Stmt::Expr(syn::Expr::If(ifx), _) = st {
                if ifx.else_branch.is_none() {
                    if let Some(syn::Stmt::Expr(syn::Expr::Return(r), _)) = ifx.then_branch.stmts.last() {
                        let inner = &ifx.then_branch.stmts[..ifx.then_branch.stmts.len() - 1];
                        let clean = !Self::has_exit(&|x| x.visit_expr(&ifx.cond)) && inner.iter().all(|s| !Self::has_exit(&|x| x.visit_stmt(s)))
                            && r.expr.as_ref().map(|e| !Self::has_exit(&|x| x.visit_expr(e))).unwrap_or(true);
                        if !clean { return None; }
                        pieces.push(Self::lit("if "));
                        pieces.push(self.sub(ifx.cond.span()));
                        pieces.push(Self::lit(" { "));
                        for s2 in inner { pieces.push(self.sub(s2.span())); pieces.push(Self::lit(" ")); }
                        match &r.expr { Some(e) => pieces.push(self.sub(e.span())), None => pieces.push(Self::lit("()")) }
                        pieces.push(Self::lit(" } else "));
                        pieces.extend(self.helper_pieces(&stmts[i + 1..], ret)?);
                        pieces.push(Self::lit(" }"));
                        return Some(pieces);
                    }
                }
            }
            // let with `?`
            if let syn::Stmt::Local(l) = st {
                if let Some(init) = &l.init {
                    if let (syn::Expr::Try(t), None) = (&*init.expr, &init.diverge) {
                        if Self::has_exit(&|x| x.visit_expr(&t.expr)) { return None; }
                        let (some, none) = if ret.starts_with("Option") { ("Some(shim_v)", "None => None") }
                            else if ret.starts_with("Result") { ("Ok(shim_v)", "Err(shim_e) => Err(From::from(shim_e))") } else { return None; };
                        pieces.push(Self::lit("match "));
                        pieces.push(self.sub(t.expr.span()));
                        pieces.push(Self::lit(&format!(" {{ {} => {{ let ", some)));
                        pieces.push(self.sub(l.pat.span()));
                        pieces.push(Self::lit(" = shim_v; "));
                        pieces.extend(self.helper_pieces(&stmts[i + 1..], ret)?);
                        pieces.push(Self::lit(&format!(" }}, {} }} }}", none)));
                        return Some(pieces);
                    }
                }
            }
            if Self::has_exit(&|x| x.visit_stmt(st)) { return None; }
            pieces.push(self.sub(st.span()));
            pieces.push(Self::lit(" "));
        }
        pieces.push(Self::lit("}"));
        Some(pieces)
    }
    /// R29: `helper(a, b)` -> `{ let (p, q): (P, Q) = (a, b); let shim_ret: R = { BODY }; shim_ret }` -- beta reduction; the
    /// arguments are evaluated once, in order, before the body; the body text is the helper's, with the rewrite rules applied
    fn inline_call(&mut self, name: &str, sig: &'a syn::Signature, block: &'a syn::Block, whole: Span, args: Vec<&syn::Expr>) -> bool {
        let (a, b) = self.src.range(whole);
        let mut pieces = vec![Self::lit("{ ")];
        let params: Vec<&syn::PatType> = sig.inputs.iter().filter_map(|x| if let syn::FnArg::Typed(pt) = x { Some(pt) } else { None }).collect();
        if params.len() != args.len() { return false; }
        let ret_text = match &sig.output {
            syn::ReturnType::Type(_, ty) => { let (x, y) = self.src.range(ty.span()); self.src.text[x..y].trim().to_string() }
            syn::ReturnType::Default => "()".to_string(),
        };
        let body = match self.helper_pieces(&block.stmts, &ret_text) { Some(p) => p, None => return false };
        if !params.is_empty() {
            pieces.push(Self::lit("let ("));
            for pt in &params { pieces.push(self.sub(pt.pat.span())); pieces.push(Self::lit(", ")); }
            pieces.push(Self::lit("): ("));
            for pt in &params { pieces.push(self.sub(pt.ty.span())); pieces.push(Self::lit(", ")); }
            pieces.push(Self::lit(") = ("));
            for e in &args { pieces.push(self.sub(e.span())); pieces.push(Self::lit(", ")); }
            pieces.push(Self::lit("); "));
        }
        pieces.push(Self::lit(&format!("let shim_ret: {} = ", ret_text)));
        pieces.extend(body);
        pieces.push(Self::lit("; shim_ret }"));
        self.ed.replace(a, b, pieces, "R29");
        self.fire("R29");
        // rewrite rules inside the arguments and (once) inside the helper's own text
        for e in &args { self.visit_expr(e); }
        if self.inline_visited.insert(name.to_string()) {
            self.inline_stack.push(name.to_string());
            self.visit_block(block);
            self.inline_stack.pop();
        }
        true
    }
    /// R34: `if C { S; continue; } REST`  ->  `if C { S } else { REST }`, for a block in TAIL position of a `for` body (the loop
    /// body itself, or a branch / match-arm block of the last statement of such a block, recursively): skipping REST and going to the
    /// next iteration is exactly what the `else` does there. A `continue` anywhere else is left alone (Verus then refuses it: exit 2).
    fn rewrite_continues(&mut self, b: &syn::Block) {
        let n = b.stmts.len();
        for (idx, st) in b.stmts.iter().enumerate() {
            let last = idx + 1 == n;
            if let syn::Stmt::Expr(syn::Expr::If(ifx), _) = st {
                if ifx.else_branch.is_none() {
                    if let Some(syn::Stmt::Expr(syn::Expr::Continue(c), _)) = ifx.then_branch.stmts.last() {
                        if c.label.is_none() {
                            let lst = ifx.then_branch.stmts.last().unwrap();
                            let (ca, cb) = self.src.range(lst.span());
                            // also swallow a following `;`
                            let bytes = self.src.text.as_bytes();
                            let mut cb2 = cb;
                            while cb2 < bytes.len() && (bytes[cb2] == b' ') { cb2 += 1; }
                            let cb = if cb2 < bytes.len() && bytes[cb2] == b';' { cb2 + 1 } else { cb };
                            self.ed.replace(ca, cb, vec![], "R34");
                            if !last {
                                let (_, if_end) = self.src.range(ifx.span());
                                let (_, rest_end) = self.src.range(b.stmts[n - 1].span());
                                self.ed.insert(if_end, " else {".to_string(), -1, "R34");
                                self.ed.insert(rest_end, "\n}".to_string(), 9, "R34");
                            }
                            self.fire("R34");
                        }
                    }
                }
            }
            if last {
                // descend into the branches of a tail statement
                let e = match st { syn::Stmt::Expr(e, _) => Some(e), _ => None };
                if let Some(e) = e { self.continues_in_tail_expr(e); }
            }
        }
    }
    fn continues_in_tail_expr(&mut self, e: &syn::Expr) {
        match e {
            syn::Expr::Block(bx) if bx.label.is_none() => self.rewrite_continues(&bx.block),
            syn::Expr::If(i) => {
                self.rewrite_continues(&i.then_branch);
                if let Some((_, els)) = &i.else_branch { self.continues_in_tail_expr(els); }
            }
            syn::Expr::Match(m) => {
                for arm in &m.arms { self.continues_in_tail_expr(&arm.body); }
            }
            _ => {}
        }
    }
    fn consume(&mut self, e: &syn::Expr) {
        if let syn::Expr::Closure(c) = e { let r = self.src.range(c.span()); self.consumed_closures.push(r); }
    }
    /// `|_| panic!(..)` / `|_| { panic!(..) }` (also unreachable!)
    fn closure_only_panics(e: &syn::Expr) -> bool {
        fn is_panic_mac(m: &syn::Macro) -> bool { let n = last_seg(&m.path); n == "panic" || n == "unreachable" }
        if let syn::Expr::Closure(c) = e {
            match &*c.body {
                syn::Expr::Macro(m) => return is_panic_mac(&m.mac),
                syn::Expr::Block(b) if b.block.stmts.len() == 1 => match &b.block.stmts[0] {
                    syn::Stmt::Macro(sm) => return is_panic_mac(&sm.mac),
                    syn::Stmt::Expr(syn::Expr::Macro(m), _) => return is_panic_mac(&m.mac),
                    _ => {}
                },
                _ => {}
            }
        }
        false
    }
    fn is_method(e: &syn::Expr, name: &str, nargs: usize) -> Option<(syn::Expr, Vec<syn::Expr>)> {
        if let syn::Expr::MethodCall(m) = e {
            if m.method == name && m.args.len() == nargs {
                return Some(((*m.receiver).clone(), m.args.iter().cloned().collect()));
            }
        }
        None
    }
    fn macro_rule(&mut self, mac: &syn::Macro, whole: Span, is_stmt: bool) {
        let name = last_seg(&mac.path);
        let (a, b) = self.src.range(whole);
        let args: Option<Vec<syn::Expr>> = mac
            .parse_body_with(Punctuated::<syn::Expr, syn::Token![,]>::parse_terminated)
            .ok()
            .map(|p| p.into_iter().collect());
        let semi = if is_stmt { ";" } else { "" };
        if LOG_MACROS.contains(&name.as_str()) {
            // R7: the arguments are still evaluated
            let args = args.unwrap_or_else(|| fail(format!("{}:{}: cannot parse arguments of {}!", self.src.rel, self.src.line_of(a), name)));
            let mut pieces = vec![Self::lit("shim_log_eval((")];
            for (i, e) in args.iter().enumerate() {
                if i == 0 {
                    if let syn::Expr::Lit(_) = e {
                        continue; // the format string
                    }
                }
                let e = if let syn::Expr::Assign(asg) = e { &*asg.right } else { e };
                pieces.push(Self::lit("&("));
                pieces.push(self.sub(e.span()));
                pieces.push(Self::lit("), "));
            }
            pieces.push(Self::lit("))"));
            pieces.push(Self::lit(semi));
            self.ed.replace(a, b, pieces, "R7");
            self.fire("R7");
            // nested rules inside the arguments
            for e in &args {
                self.visit_expr(e);
            }
            return;
        }
        if name == "format" {
            // R19: format!(fmt, args..) -> shim_format((&(arg),..)): arguments still evaluated, the text is not modelled
            let args = args.unwrap_or_else(|| fail(format!("{}:{}: cannot parse arguments of format!", self.src.rel, self.src.line_of(a))));
            let mut pieces = vec![Self::lit("shim_format((")];
            for (i, e) in args.iter().enumerate() {
                if i == 0 { if let syn::Expr::Lit(_) = e { continue; } }
                let e = if let syn::Expr::Assign(asg) = e { &*asg.right } else { e };
                pieces.push(Self::lit("&("));
                pieces.push(self.sub(e.span()));
                pieces.push(Self::lit("), "));
            }
            pieces.push(Self::lit("))"));
            pieces.push(Self::lit(semi));
            self.ed.replace(a, b, pieces, "R7");
            self.fire("R7");
            for e in &args { self.visit_expr(e); }
            return;
        }
        if name == "write" || name == "writeln" {
            // R7b: write!(f, fmt, args..) -> shim_fmt_write(f, (&(arg),..)); arguments still evaluated, result kept
            let args = args.unwrap_or_else(|| fail(format!("{}:{}: cannot parse arguments of {}!", self.src.rel, self.src.line_of(a), name)));
            let mut pieces = vec![Self::lit("shim_fmt_write("), self.sub(args[0].span()), Self::lit(", (")];
            for e in args.iter().skip(1) {
                if let syn::Expr::Lit(_) = e {
                    continue;
                }
                let e = if let syn::Expr::Assign(asg) = e { &*asg.right } else { e };
                pieces.push(Self::lit("&("));
                pieces.push(self.sub(e.span()));
                pieces.push(Self::lit("), "));
            }
            pieces.push(Self::lit("))"));
            pieces.push(Self::lit(semi));
            self.ed.replace(a, b, pieces, "R7");
            self.fire("R7");
            for e in args.iter().skip(1) {
                self.visit_expr(e);
            }
            return;
        }
        // debug_assert*!: checked like assert*! (an obligation "never fires"; in release builds the check is compiled out, so
        // treating it as an obligation is the conservative reading)
        let dbg = name.starts_with("debug_assert");
        let name = if dbg { name["debug_".len()..].to_string() } else { name };
        if name == "assert_eq" || name == "assert_ne" {
            let args = args.unwrap_or_else(|| fail(format!("{}:{}: cannot parse arguments of {}!", self.src.rel, self.src.line_of(a), name)));
            if args.len() < 2 {
                fail(format!("{}:{}: {}! with <2 args", self.src.rel, self.src.line_of(a), name));
            }
            let op = if name == "assert_eq" { " == " } else { " != " };
            let (pre, post) = if self.abort_allowed { ("if !(", ") { shim_abort(); }") } else { ("assert!(", ")") };
            let pieces = vec![
                Self::lit(pre),
                Self::lit("("),
                self.sub(args[0].span()),
                Self::lit(")"),
                Self::lit(op),
                Self::lit("("),
                self.sub(args[1].span()),
                Self::lit(")"),
                Self::lit(post),
                Self::lit(if self.abort_allowed { "" } else { semi }),
            ];
            self.ed.replace(a, b, pieces, "R10");
            self.fire("R10");
            if self.abort_allowed {
                self.fire("R6");
            }
            self.visit_expr(&args[0]);
            self.visit_expr(&args[1]);
            return;
        }
        if name == "assert" {
            let args = args.unwrap_or_else(|| fail(format!("{}:{}: cannot parse arguments of assert!", self.src.rel, self.src.line_of(a))));
            if self.abort_allowed {
                let pieces = vec![Self::lit("if !("), self.sub(args[0].span()), Self::lit(") { shim_abort(); }")];
                self.ed.replace(a, b, pieces, "R6");
                self.fire("R6");
            } else if args.len() > 1 || dbg {
                // drop the message (format arguments of a failing assert are not evaluated on the passing path)
                let pieces = vec![Self::lit("assert!("), self.sub(args[0].span()), Self::lit(")"), Self::lit(semi)];
                self.ed.replace(a, b, pieces, "R10");
                self.fire("R10");
            }
            self.visit_expr(&args[0]);
            return;
        }
        if name == "panic" || name == "unreachable" {
            if self.abort_allowed {
                self.ed.replace(a, b, vec![Self::lit("shim_abort()"), Self::lit(semi)], "R6");
                self.fire("R6");
            } else {
                // message dropped; remains an obligation ("must be unreachable")
                self.ed.replace(a, b, vec![Self::lit(&format!("{}!()", name)), Self::lit(semi)], "R10");
                self.fire("R10");
            }
            return;
        }
        if name == "vec" {
            if let Some(args) = args {
                for e in &args {
                    self.visit_expr(e);
                }
            }
        }
    }
}

impl<'a, 'e, 'ast> Visit<'ast> for Rewriter<'a, 'e> {
    fn visit_expr_call(&mut self, c: &'ast syn::ExprCall) {
        // R22: ghost-state threading -- `f(args)` -> `f(args, <ghost arg>)`; the extra argument is Ghost/Tracked (erased at run time)
        if let syn::Expr::Path(p) = &*c.func {
            let nm = last_seg(&p.path);
            if let Some((_, extra)) = self.thread.iter().find(|(n, _)| *n == nm).cloned() {
                let close = self.src.off(c.paren_token.span.close().start());
                let sep = if c.args.is_empty() || c.args.trailing_punct() { "" } else { ", " };
                self.ed.insert(close, format!("{}{}", sep, extra), 0, "R22");
                self.fire("R22");
            }
        }
        // R16 (path form): u32::to_le_bytes(X) -> (X).shim_to_le_bytes()   (same function, UFCS spelling)
        if let syn::Expr::Path(p) = &*c.func {
            let segs: Vec<String> = p.path.segments.iter().map(|s| s.ident.to_string()).collect();
            if segs.len() == 2 && segs[1] == "to_le_bytes" && ["u16", "u32", "u64"].contains(&segs[0].as_str()) && c.args.len() == 1 {
                let (fa, fb) = self.src.range(c.func.span());
                let open = self.src.off(c.paren_token.span.open().start());
                let close = self.src.off(c.paren_token.span.close().start());
                let _ = fb;
                self.ed.replace(fa, open + 1, vec![Self::lit("(")], "R16");
                self.ed.replace(close, close + 1, vec![Self::lit(&format!(" as {}).shim_to_le_bytes()", segs[0]))], "R16");
                self.fire("R16");
            }
        }
        // R29: inline a contract-less same-file helper
        if let syn::Expr::Path(p) = &*c.func {
            let segs: Vec<String> = p.path.segments.iter().map(|s| s.ident.to_string()).collect();
            let nm = segs.last().cloned().unwrap_or_default();
            let free = segs.len() == 1;
            let assoc = segs.len() == 2 && (segs[0] == "Self" || Some(&segs[0]) == self.self_ty.as_ref());
            if (free || assoc) && !self.thread.iter().any(|(n, _)| *n == nm) {
                if let Some((sig, block)) = self.find_helper(&nm, false) {
                    // a free function is looked up among top-level items; an associated one among the impl's items
                    let is_top = self.src.ast.items.iter().any(|it| matches!(it, syn::Item::Fn(f) if f.sig.ident == nm));
                    if (free && is_top) || (assoc && !is_top) {
                        let args: Vec<&syn::Expr> = c.args.iter().collect();
                        if self.inline_call(&nm, sig, block, c.span(), args) { return; }
                    }
                }
            }
        }
        syn::visit::visit_expr_call(self, c);
    }
    fn visit_expr_closure(&mut self, c: &'ast syn::ExprClosure) {
        // R32: a closure parameter that is a PATTERN (`|(n, _)|`, `|&v|`) is bound to a fresh variable and destructured inside:
        //      |P, Q| BODY  ->  |shim_c0, shim_c1| { let P = shim_c0; let Q = shim_c1; BODY }      (Verus wants plain variables)
        fn plain(p: &syn::Pat) -> bool {
            match p {
                syn::Pat::Ident(pi) => pi.by_ref.is_none() && pi.subpat.is_none(),
                syn::Pat::Wild(_) => true,
                syn::Pat::Type(t) => plain(&t.pat),
                _ => false,
            }
        }
        let (a, b) = self.src.range(c.span());
        let already = self.ed.edits.iter().any(|e| e.start == a && e.end == b);
        if !already && !self.consumed_closures.iter().any(|r| *r == (a, b)) {
            self.bare_closures.push(self.src.line_of(a));
        }
        if !already && c.inputs.iter().any(|p| !plain(p)) && c.capture.is_none() && c.asyncness.is_none() {
            let mut pieces = vec![Self::lit("|")];
            let mut lets: Vec<Piece> = vec![];
            for (i, p) in c.inputs.iter().enumerate() {
                if i > 0 { pieces.push(Self::lit(", ")); }
                if plain(p) {
                    pieces.push(self.sub(p.span()));
                } else {
                    pieces.push(Self::lit(&format!("shim_c{}", i)));
                    let pat: &syn::Pat = if let syn::Pat::Type(t) = p {
                        pieces.push(Self::lit(": "));
                        pieces.push(self.sub(t.ty.span()));
                        &t.pat
                    } else { p };
                    lets.push(Self::lit("let "));
                    lets.push(self.sub(pat.span()));
                    lets.push(Self::lit(&format!(" = shim_c{}; ", i)));
                }
            }
            pieces.push(Self::lit("| "));
            if let syn::ReturnType::Type(_, ty) = &c.output { pieces.push(Self::lit("-> ")); pieces.push(self.sub(ty.span())); pieces.push(Self::lit(" ")); }
            pieces.push(Self::lit("{ "));
            pieces.extend(lets);
            pieces.push(self.sub(c.body.span()));
            pieces.push(Self::lit(" }"));
            self.ed.replace(a, b, pieces, "R32");
            self.fire("R32");
        }
        syn::visit::visit_expr_closure(self, c);
    }
    fn visit_expr_binary(&mut self, b: &'ast syn::ExprBinary) {
        // R25: X == "lit" / X != "lit"  ->  (X).shim_eq("lit") / !(X).shim_eq("lit")
        //      (`String == &str` / `&str == &str` go through std PartialEq impls without a Verus spec; routed through one trait)
        let is_eq = matches!(b.op, syn::BinOp::Eq(_));
        let is_ne = matches!(b.op, syn::BinOp::Ne(_));
        if (is_eq || is_ne) && matches!(&*b.right, syn::Expr::Lit(syn::ExprLit { lit: syn::Lit::Str(_), .. })) {
            let (a, e) = self.src.range(b.span());
            let pieces = vec![Self::lit(if is_ne { "!(" } else { "(" }), self.sub(b.left.span()), Self::lit(").shim_eq("), self.sub(b.right.span()), Self::lit(")")];
            self.ed.replace(a, e, pieces, "R25");
            self.fire("R25");
            self.visit_expr(&b.left);
            return;
        }
        syn::visit::visit_expr_binary(self, b);
    }
    fn visit_stmt_macro(&mut self, m: &'ast syn::StmtMacro) {
        self.macro_rule(&m.mac, m.span(), m.semi_token.is_some());
    }
    fn visit_expr_macro(&mut self, m: &'ast syn::ExprMacro) {
        self.macro_rule(&m.mac, m.span(), false);
    }
    fn visit_local(&mut self, l: &'ast syn::Local) {
        syn::visit::visit_local(self, l);
    }
    fn visit_item_const(&mut self, c: &'ast syn::ItemConst) {
        // R13: function-local const -> let
        let (a, b) = self.src.range(c.const_token.span());
        self.ed.replace(a, b, vec![Self::lit("let")], "R13");
        self.fire("R13");
        self.visit_expr(&c.expr);
    }
    fn visit_expr_for_loop(&mut self, f: &'ast syn::ExprForLoop) {
        // R11: for x in &mut E  ->  for x in E.iter_mut()
        if let syn::Expr::Reference(r) = &*f.expr {
            if r.mutability.is_some() {
                let (a, b) = self.src.range(f.expr.span());
                let pieces = vec![Self::lit("("), self.sub(r.expr.span()), Self::lit(").iter_mut()")];
                self.ed.replace(a, b, pieces, "R11");
                self.fire("R11");
            }
        }
        // R34: guard-`continue` in a for loop (Verus: "for-loops do not yet support continue")
        self.rewrite_continues(&f.body);
        syn::visit::visit_expr_for_loop(self, f);
    }
    fn visit_expr_index(&mut self, i: &'ast syn::ExprIndex) {
        // R6 (abort allowed): MAP[&K] -> *shim_map_index(&MAP, &K)   (only for `x[&k]` shapes)
        if self.abort_allowed {
            // R6: `X[a..b]` where an out-of-range slice is a legal abort of the client
            if let syn::Expr::Range(r) = &*i.index {
                if matches!(r.limits, syn::RangeLimits::HalfOpen(_)) {
                    let (a, b) = self.src.range(i.span());
                    let mut pieces = vec![];
                    match (&r.start, &r.end) {
                        (Some(lo), Some(hi)) => { pieces.push(Self::lit("(*shim_subslice(&")); pieces.push(self.sub(i.expr.span())); pieces.push(Self::lit(", ")); pieces.push(self.sub(lo.span())); pieces.push(Self::lit(", ")); pieces.push(self.sub(hi.span())); pieces.push(Self::lit("))")); }
                        (None, Some(hi)) => { pieces.push(Self::lit("(*shim_subslice(&")); pieces.push(self.sub(i.expr.span())); pieces.push(Self::lit(", 0, ")); pieces.push(self.sub(hi.span())); pieces.push(Self::lit("))")); }
                        (Some(lo), None) => { pieces.push(Self::lit("(*shim_subslice_from(&")); pieces.push(self.sub(i.expr.span())); pieces.push(Self::lit(", ")); pieces.push(self.sub(lo.span())); pieces.push(Self::lit("))")); }
                        _ => {}
                    }
                    if !pieces.is_empty() {
                        self.ed.replace(a, b, pieces, "R6");
                        self.fire("R6");
                    }
                }
            }
        }
        if let syn::Expr::Reference(_) = &*i.index {
            // `MAP[&K]`: R6 (abort allowed: a missing key is a legal abort) / R17 (otherwise: key presence is an obligation)
            let (a, b) = self.src.range(i.span());
            let f = if self.abort_allowed { "(*shim_map_index(&" } else { "(*shim_map_at(&" };
            let pieces = vec![Self::lit(f), self.sub(i.expr.span()), Self::lit(", "), self.sub(i.index.span()), Self::lit("))")];
            self.ed.replace(a, b, pieces, if self.abort_allowed { "R6" } else { "R17" });
            self.fire(if self.abort_allowed { "R6" } else { "R17" });
        }
        syn::visit::visit_expr_index(self, i);
    }
    fn visit_expr_method_call(&mut self, m: &'ast syn::ExprMethodCall) {
        let e = syn::Expr::MethodCall(m.clone());
        let (a, b) = self.src.range(m.span());
        let name = m.method.to_string();
        // R29: `self.helper(args)` where helper is a contract-less method of the same impl type: replaced by its body
        if matches!(&*m.receiver, syn::Expr::Path(p) if p.path.is_ident("self")) && m.turbofish.is_none() && !self.thread.iter().any(|(n, _)| *n == name) {
            if let Some((sig, block)) = self.find_helper(&name, true) {
                // SAFETY of lifetimes: sig/block borrow from self.src (lifetime 'a), `m` only supplies the argument spans
                let args: Vec<&syn::Expr> = m.args.iter().collect();
                if self.inline_call(&name, sig, block, m.span(), args) { return; }
            }
        }
        // R4: (&mut A as &mut [u8]).write_uNN::<LittleEndian>(X)  ->  shim_write_uNN_into(&mut A, X)
        let mut recv: &syn::Expr = &m.receiver;
        while let syn::Expr::Paren(p) = recv {
            recv = &p.expr;
        }
        let mut r4 = false;
        if name.starts_with("write_u") && m.args.len() == 1 {
            if let syn::Expr::Cast(c) = recv {
                if let (syn::Expr::Reference(r), syn::Type::Reference(t)) = (&*c.expr, &*c.ty) {
                    if r.mutability.is_some() && t.mutability.is_some() && matches!(&*t.elem, syn::Type::Slice(_)) {
                        let pieces = vec![Self::lit(&format!("shim_{}_into(", name)), self.sub(c.expr.span()), Self::lit(", "), self.sub(m.args[0].span()), Self::lit(")")];
                        self.ed.replace(a, b, pieces, "R4");
                        self.fire("R4");
                        r4 = true;
                    }
                }
            }
        }
        if r4 {
            for arg in &m.args {
                self.visit_expr(arg);
            }
            return;
        }
        // R1: X.chunks(N)
        if name == "chunks" && m.args.len() == 1 {
            let pieces = vec![Self::lit("shim_chunks("), self.sub(m.receiver.span()), Self::lit(", "), self.sub(m.args[0].span()), Self::lit(")")];
            self.ed.replace(a, b, pieces, "R1");
            self.fire("R1");
        }
        // R2: once(A).chain(V.iter()) / V.iter().chain(once(A))
        else if name == "chain" && m.args.len() == 1 {
            if let (Some(oa), Some((v, _))) = (Self::is_call_named(&m.receiver, "once"), Self::is_method(&m.args[0], "iter", 0)) {
                let pieces = vec![Self::lit("shim_once_chain("), self.sub(oa[0].span()), Self::lit(", &"), self.sub(v.span()), Self::lit(")")];
                self.ed.replace(a, b, pieces, "R2");
                self.fire("R2");
            } else if let (Some((v, _)), Some(oa)) = (Self::is_method(&m.receiver, "iter", 0), Self::is_call_named(&m.args[0], "once")) {
                let pieces = vec![Self::lit("shim_chain_once(&"), self.sub(v.span()), Self::lit(", "), self.sub(oa[0].span()), Self::lit(")")];
                self.ed.replace(a, b, pieces, "R2");
                self.fire("R2");
            }
        }
        // R3: V.extend(E)
        else if name == "extend" && m.args.len() == 1 {
            let f = if matches!(&m.args[0], syn::Expr::Reference(_)) { "shim_extend_ref(&mut " } else { "shim_extend(&mut " };
            let pieces = vec![Self::lit(f), self.sub(m.receiver.span()), Self::lit(", "), self.sub(m.args[0].span()), Self::lit(")")];
            self.ed.replace(a, b, pieces, "R3");
            self.fire("R3");
        }
        // R5: X.iter().map(|v| v.len()).sum()
        else if name == "sum" && m.args.is_empty() {
            if let Some((inner, margs)) = Self::is_method(&m.receiver, "map", 1) {
                if let (Some((x, _)), syn::Expr::Closure(_)) = (Self::is_method(&inner, "iter", 0), &margs[0]) {
                    let pieces = vec![Self::lit("shim_sum_lens(&"), self.sub(x.span()), Self::lit(")")];
                    self.ed.replace(a, b, pieces, "R5");
                    self.fire("R5");
                    self.consume(&margs[0]);
                }
                // R28: X.values().map(C).sum()  ->  shim_values_sum(&X, C, Ghost(SPEC))     (SPEC: the template's `//@sumspec`)
                //      X.values().map(C1).map(C2).sum()  ->  shim_values_sum2(&X, C1, C2, Ghost(SPEC))
                else if let (Some((x, _)), syn::Expr::Closure(_), Some(spec)) = (Self::is_method(&inner, "values", 0), &margs[0], self.sumspec.clone()) {
                    let pieces = vec![Self::lit("shim_values_sum(&"), self.sub(x.span()), Self::lit(", "), self.sub(margs[0].span()), Self::lit(&format!(", Ghost({}))", spec))];
                    self.ed.replace(a, b, pieces, "R28");
                    self.fire("R28");
                    self.visit_expr(&margs[0]);
                    return;
                } else if let (Some((inner2, margs2)), syn::Expr::Closure(_), Some(spec)) = (Self::is_method(&inner, "map", 1), &margs[0], self.sumspec.clone()) {
                    if let (Some((x, _)), syn::Expr::Closure(_)) = (Self::is_method(&inner2, "values", 0), &margs2[0]) {
                        let pieces = vec![Self::lit("shim_values_sum2(&"), self.sub(x.span()), Self::lit(", "), self.sub(margs2[0].span()), Self::lit(", "),
                                          self.sub(margs[0].span()), Self::lit(&format!(", Ghost({}))", spec))];
                        self.ed.replace(a, b, pieces, "R28");
                        self.fire("R28");
                        self.visit_expr(&margs2[0]);
                        self.visit_expr(&margs[0]);
                        return;
                    }
                }
            }
        }
        // R21: X.try_into() -> X.shim_try_into()  (the generic TryInto blanket impl has no Verus spec; routed through a trait)
        else if name == "try_into" && m.args.is_empty() {
            let (ma, mb) = self.src.range(m.method.span());
            self.ed.replace(ma, mb, vec![Self::lit("shim_try_into")], "R21");
            self.fire("R21");
        }
        // R16: X.to_le_bytes() -> X.shim_to_le_bytes()
        else if name == "to_le_bytes" && m.args.is_empty() {
            let (ma, mb) = self.src.range(m.method.span());
            self.ed.replace(ma, mb, vec![Self::lit("shim_to_le_bytes")], "R16");
            self.fire("R16");
        }
        // R15: OPT.as_ref().map(|x| BODY)  ->  (match OPT.as_ref() { Some(x) => Some(BODY), None => None })
        //      (the definition of Option::map; if the receiver were not an Option the result would not type-check)
        //      also for `VAR.map(|x| BODY)` with a plain variable as receiver (an Option local; anything else fails to type-check)
        else if name == "map" && m.args.len() == 1 && (Self::is_method(&m.receiver, "as_ref", 0).is_some() || matches!(&*m.receiver, syn::Expr::Path(_))) {
            if let syn::Expr::Closure(c) = &m.args[0] {
                if c.inputs.len() == 1 {
                    if let syn::Pat::Ident(pi) = &c.inputs[0] {
                        let pieces = vec![Self::lit("(match "), self.sub(m.receiver.span()), Self::lit(&format!(" {{ Some({}) => Some(", pi.ident)),
                                          self.sub(c.body.span()), Self::lit("), None => None })")];
                        self.ed.replace(a, b, pieces, "R15");
                        self.fire("R15");
                        self.consume(&m.args[0]);
                    }
                }
            }
        }
        // R14: (0..N).map(|_| C).collect()  ->  shim_fill_vec(N, C)
        else if name == "collect" && m.args.is_empty() {
            // R31: E.map(|(_, v)| *v).collect()  ->  shim_collect_values(E)    (the values of a map iterator, copied into a Vec)
            if let Some((inner, margs)) = Self::is_method(&m.receiver, "map", 1) {
                if let syn::Expr::Closure(c) = &margs[0] {
                    let mut ok = false;
                    if c.inputs.len() == 1 {
                        if let syn::Pat::Tuple(t) = &c.inputs[0] {
                            if t.elems.len() == 2 && matches!(t.elems[0], syn::Pat::Wild(_)) {
                                if let (syn::Pat::Ident(pi), syn::Expr::Unary(u)) = (&t.elems[1], &*c.body) {
                                    if matches!(u.op, syn::UnOp::Deref(_)) && matches!(&*u.expr, syn::Expr::Path(p) if p.path.is_ident(&pi.ident)) { ok = true; }
                                }
                            }
                        }
                    }
                    if ok {
                        let pieces = vec![Self::lit("shim_collect_values("), self.sub(inner.span()), Self::lit(")")];
                        self.ed.replace(a, b, pieces, "R31");
                        self.fire("R31");
                        self.visit_expr(&inner);
                        return;
                    }
                }
            }
            if let Some((inner, margs)) = Self::is_method(&m.receiver, "map", 1) {
                let mut rg: &syn::Expr = &inner;
                while let syn::Expr::Paren(p) = rg { rg = &p.expr; }
                if let (syn::Expr::Range(r), syn::Expr::Closure(c)) = (rg, &margs[0]) {
                    if let (Some(lo), Some(hi)) = (&r.start, &r.end) {
                        let lo_zero = matches!(&**lo, syn::Expr::Lit(syn::ExprLit { lit: syn::Lit::Int(n), .. }) if n.base10_digits() == "0");
                        let wild = c.inputs.len() == 1 && matches!(c.inputs[0], syn::Pat::Wild(_));
                        if lo_zero && wild && matches!(&*c.body, syn::Expr::Lit(_)) {
                            let pieces = vec![Self::lit("shim_fill_vec("), self.sub(hi.span()), Self::lit(", "), self.sub(c.body.span()), Self::lit(")")];
                            self.ed.replace(a, b, pieces, "R14");
                            self.fire("R14");
                            self.consume(&margs[0]);
                        }
                    }
                }
            }
        }
        // R12: X.iter().enumerate()
        else if name == "enumerate" && m.args.is_empty() {
            if let Some((x, _)) = Self::is_method(&m.receiver, "iter", 0) {
                let pieces = vec![Self::lit("shim_enumerate(&"), self.sub(x.span()), Self::lit(")")];
                self.ed.replace(a, b, pieces, "R12");
                self.fire("R12");
            }
        }
        // R6: unwrap / expect where abort is a legal outcome
        else if self.abort_allowed && (name == "unwrap" || name == "expect") {
            let pieces = vec![self.sub(m.receiver.span()), Self::lit(".unwrap_or_abort()")];
            self.ed.replace(a, b, pieces, "R6");
            self.fire("R6");
        }
        // R6: X.unwrap_or_else(|_| panic!(...)) where abort is a legal outcome: the closure does nothing but panic
        else if self.abort_allowed && name == "unwrap_or_else" && m.args.len() == 1 && Self::closure_only_panics(&m.args[0]) {
            let pieces = vec![self.sub(m.receiver.span()), Self::lit(".unwrap_or_abort()")];
            self.ed.replace(a, b, pieces, "R6");
            self.fire("R6");
            self.visit_expr(&m.receiver);
            return;
        }
        // R27: X.to_string() -> X.shim_to_string()  (the blanket `impl<T: Display> ToString for T` cannot be given a per-type spec)
        else if self.tostring && name == "to_string" && m.args.is_empty() {
            let (ma, mb) = self.src.range(m.method.span());
            self.ed.replace(ma, mb, vec![Self::lit("shim_to_string")], "R27");
            self.fire("R27");
        }
        // R24: X.parse() -> X.shim_parse()   (str::parse::<T> is generic over FromStr; routed through a trait with one impl per target type)
        else if name == "parse" && m.args.is_empty() && m.turbofish.is_none() {
            let (ma, mb) = self.src.range(m.method.span());
            self.ed.replace(ma, mb, vec![Self::lit("shim_parse")], "R24");
            self.fire("R24");
        }
        // R33: Result/Option combinators that apply their closure at most once, replaced by their definition (the method name and the
        //      closure's arity fix the receiver type; anything else does not type-check and leaves the unit undecided):
        //        X.map_err(|e| B)        ->  (match X { Ok(shim_v) => Ok(shim_v), Err(e) => Err(B) })
        //        X.ok_or_else(|| B)      ->  (match X { Some(shim_v) => Ok(shim_v), None => Err(B) })
        //        X.unwrap_or_else(|| B)  ->  (match X { Some(shim_v) => shim_v, None => B })
        //        X.unwrap_or_else(|e| B) ->  (match X { Ok(shim_v) => shim_v, Err(e) => B })
        //      not applied when B contains `return` or `?` (they would leave the enclosing function instead of the closure)
        else if (name == "map_err" || name == "ok_or_else" || name == "unwrap_or_else") && m.args.len() == 1
            && matches!(&m.args[0], syn::Expr::Closure(c) if c.capture.is_none() && c.asyncness.is_none() && c.inputs.len() <= 1 && {
                let mut sc = ExitScan(false); sc.visit_expr(&c.body); !sc.0 })
        {
            if let syn::Expr::Closure(c) = &m.args[0] {
                fn pat_text(p: &syn::Pat) -> Option<String> {
                    match p {
                        syn::Pat::Ident(pi) if pi.by_ref.is_none() && pi.subpat.is_none() => Some(pi.ident.to_string()),
                        syn::Pat::Wild(_) => Some("_".to_string()),
                        syn::Pat::Type(t) => pat_text(&t.pat),
                        _ => None,
                    }
                }
                let arity = c.inputs.len();
                let pt = if arity == 1 { pat_text(&c.inputs[0]) } else { None };
                let shape: Option<(String, &str, String, &str)> = match (name.as_str(), arity, pt) {
                    ("map_err", 1, Some(e)) => Some((" { Ok(shim_v) => Ok(shim_v), Err(".to_string() + &e + ") => Err(", ")", String::new(), "")),
                    ("ok_or_else", 0, _) => Some((" { Some(shim_v) => Ok(shim_v), None => Err(".to_string(), ")", String::new(), "")),
                    ("unwrap_or_else", 0, _) => Some((" { Some(shim_v) => shim_v, None => (".to_string(), ")", String::new(), "")),
                    ("unwrap_or_else", 1, Some(e)) => Some((" { Ok(shim_v) => shim_v, Err(".to_string() + &e + ") => (", ")", String::new(), "")),
                    _ => None,
                };
                if let Some((head, tail, _, _)) = shape {
                    let pieces = vec![Self::lit("(match "), self.sub(m.receiver.span()), Self::lit(&head), self.sub(c.body.span()),
                                      Self::lit(tail), Self::lit(" })")];
                    self.ed.replace(a, b, pieces, "R33");
                    self.fire("R33");
                    self.consume(&m.args[0]);
                }
            }
        }
        // R15 (function argument): OPT.map(PATH)  ->  match OPT { Some(x) => Some(PATH(x)), None => None }
        else if name == "map" && m.args.len() == 1 && matches!(&m.args[0], syn::Expr::Path(_)) {
            let pieces = vec![Self::lit("(match "), self.sub(m.receiver.span()), Self::lit(" { Some(shim_x) => Some("),
                              self.sub(m.args[0].span()), Self::lit("(shim_x)), None => None })")];
            self.ed.replace(a, b, pieces, "R15");
            self.fire("R15");
        }
        let _ = e;
        if let Some((_, extra)) = self.thread.iter().find(|(n, _)| *n == name).cloned() {
            let close = self.src.off(m.paren_token.span.close().start());
            let sep = if m.args.is_empty() || m.args.trailing_punct() { "" } else { ", " };
            self.ed.insert(close, format!("{}{}", sep, extra), 0, "R22");
            self.fire("R22");
        }
        syn::visit::visit_expr_method_call(self, m);
    }
}

// ---------------------------------------------------------------------------------------------
// template processing
// ---------------------------------------------------------------------------------------------
#[derive(Default, Clone)]
struct Opts {
    kv: BTreeMap<String, String>,
    flags: Vec<String>,
}
impl Opts {
    fn parse(words: &[&str]) -> Opts {
        let mut o = Opts::default();
        for w in words {
            if let Some((k, v)) = w.split_once('=') {
                o.kv.insert(k.to_string(), v.to_string());
            } else {
                o.flags.push(w.to_string());
            }
        }
        o
    }
    fn get(&self, k: &str) -> Option<&str> {
        self.kv.get(k).map(|s| s.as_str())
    }
    fn has(&self, f: &str) -> bool {
        self.flags.iter().any(|x| x == f)
    }
}

struct Ctx {
    repo: PathBuf,
    tdir: PathBuf,
    srcs: BTreeMap<String, Src>,
    out: String,
    out_line: usize,
    regions: Vec<serde_json::Value>,
    rules_fired: BTreeMap<String, usize>,
    unit_props: Vec<String>,
    vacuity: bool,
    /// `--ablate`: end-of-loop / end-of-function proof blocks are replaced by `assume(false)` -- a "body obligations only" variant
    /// used as a fallback when the full query of a function runs into the resource limit
    ablate: bool,
    defines: Vec<String>,
    /// names (last path segment) of every function that has a `//@fn` / `//@stmt` / `//@outline` contract in contracts/
    known: std::collections::BTreeSet<String>,
    /// item names declared by `//@item` anywhere in contracts/, and the items emitted so far in this unit
    known_items: std::collections::BTreeSet<String>,
    emitted_items: std::collections::BTreeSet<String>,
    auto_text: String,
}

impl Ctx {
    fn emit(&mut self, s: &str) {
        self.out.push_str(s);
        self.out_line += s.matches('\n').count();
    }
    fn src(&mut self, rel: &str) -> &Src {
        if !self.srcs.contains_key(rel) {
            let s = Src::load(&self.repo, rel);
            self.srcs.insert(rel.to_string(), s);
        }
        &self.srcs[rel]
    }
}

fn sha(text: &str) -> String {
    // FNV-1a 64 (content fingerprint for the evidence; not a security hash)
    let mut h: u64 = 0xcbf29ce484222325;
    for b in text.bytes() {
        h ^= b as u64;
        h = h.wrapping_mul(0x100000001b3);
    }
    format!("{:016x}", h)
}

struct FnDirective {
    file: String,
    qual: String,
    opts: Opts,
    ret: Option<String>,
    sections: Vec<(String, String)>, // (anchor spec, text)
    tline: usize,
}

fn resolve_n(spec: &str) -> (String, usize) {
    match spec.split_once('#') {
        Some((n, k)) => (n.to_string(), k.parse().unwrap_or_else(|_| fail(format!("bad ordinal in anchor {}", spec)))),
        None => (spec.to_string(), 0),
    }
}

fn process_fn(ctx: &mut Ctx, d: &FnDirective, assume_default: bool, tfile: &str) {
    let repo = ctx.repo.clone();
    let _ = repo;
    ctx.src(&d.file);
    if d.opts.has("optional") && find_fn(&ctx.srcs[&d.file].ast.items, &d.qual).is_none() {
        // an `optional` function (a helper no property statement mentions) that no longer exists is simply not emitted;
        // any remaining caller then fails to compile (exit 2), so nothing is silently lost
        ctx.emit(&format!("// (optional function {} is absent from /repo/{})\n", d.qual, d.file));
        return;
    }
    let src = &ctx.srcs[&d.file];
    let loc = find_fn(&src.ast.items, &d.qual)
        .unwrap_or_else(|| fail(format!("{}:{}: function {} not found in {}", tfile, d.tline, d.qual, d.file)));
    let mode_assume = match d.opts.get("mode") {
        Some("assume") => true,
        Some("prove") => false,
        Some(x) => fail(format!("{}:{}: bad mode {}", tfile, d.tline, x)),
        None => assume_default,
    };
    let abort_allowed = d.opts.get("abort") == Some("allowed");
    let props: Vec<String> = d.opts.get("props").map(|p| p.split(',').map(|s| s.to_string()).collect()).unwrap_or_default();

    let (mut fstart, fend) = src.range(loc.whole);
    // attributes (incl. doc comments) are part of `whole` for ImplItemFn/ItemFn spans; make sure
    if let Some(a) = loc.attrs.first() {
        let s = src.range(a.span()).0;
        if s < fstart {
            fstart = s;
        }
    }
    let block_open = src.off(loc.block.brace_token.span.open().start());
    let block_close = src.off(loc.block.brace_token.span.close().start());

    let mut ed = Editor::new(&src.text);
    // visibility override (e.g. private fn called across verus modules)
    if let Some(v) = d.opts.get("vis") {
        let vs = src.range(loc.vis.span());
        let fn_tok = src.range(loc.sig.span()).0;
        if let syn::Visibility::Inherited = loc.vis {
            ed.insert(fn_tok, format!("{} ", v), 0, "vis");
        } else {
            ed.replace(vs.0, vs.1, vec![Piece::Lit(v.to_string())], "vis");
        }
    }
    // R18: a wildcard parameter `_: T` becomes `_pN: T` (Verus wants plain identifier parameters)
    for (n, arg) in loc.sig.inputs.iter().enumerate() {
        if let syn::FnArg::Typed(pt) = arg {
            if let syn::Pat::Wild(w) = &*pt.pat {
                let (a, b) = src.range(w.span());
                ed.replace(a, b, vec![Piece::Lit(format!("_p{}", n))], "R18");
            }
        }
    }
    // R22 (callee side): extra ghost parameter appended to the parameter list
    let mut n_extra = 0usize;
    let mut n_r23 = 0usize;
    for (a, t) in &d.sections {
        if a == "extra_param" {
            let close = src.off(loc.sig.paren_token.span.close().start());
            let sep = if loc.sig.inputs.is_empty() || loc.sig.inputs.trailing_punct() { "" } else { ", " };
            ed.insert(close, format!("{}{}", sep, t.trim()), 0, "extra_param");
            n_extra += 1;
        }
    }
    // R0: named return value
    if let Some(r) = &d.ret {
        match &loc.sig.output {
            syn::ReturnType::Type(_, ty) => {
                let (a, b) = src.range(ty.span());
                ed.replace(a, b, vec![Piece::Lit(format!("({}: ", r)), Piece::Sub(a, b), Piece::Lit(")".into())], "R0");
            }
            syn::ReturnType::Default => fail(format!("{}:{}: //@ret on a function without return type: {}", tfile, d.tline, d.qual)),
        }
    }

    let mut anchors_used = vec![];
    let mut fired: BTreeMap<String, usize> = BTreeMap::new();

    let text = if mode_assume {
        let mut sig_text = String::new();
        for (a, t) in &d.sections {
            if a == "sig" {
                sig_text.push_str(t);
            }
        }
        let head = ed.render(fstart, block_open, None);
        format!("#[verifier::external_body]\n    {}\n{}    {{ unimplemented!() }}", head.trim_end(), sig_text)
    } else {
        let mut scan = Scan { src, loops: vec![], stmts: vec![], calls: vec![], closures: vec![] };
        scan.visit_block(loc.block);
        // innermost statement containing a range
        let stmt_of = |r: (usize, usize), stmts: &Vec<StmtInfo>| -> Option<(usize, usize)> {
            stmts
                .iter()
                .filter(|s| s.range.0 <= r.0 && r.1 <= s.range.1)
                .min_by_key(|s| s.range.1 - s.range.0)
                .map(|s| s.range)
        };
        for (a, t) in &d.sections {
            let words: Vec<&str> = a.split_whitespace().collect();
            let lost = |what: &str| -> ! { fail(format!("{}:{}: lost anchor `{}` in {} ({})", tfile, d.tline, a, d.qual, what)) };
            match words[0] {
                "extra_param" | "thread" | "sumspec" => {}
                "lettype" => {
                    // R23: type ascription on a local whose type rustc infers from later statements but a loop invariant needs earlier
                    let (nm, n) = resolve_n(words.get(1).unwrap_or_else(|| lost("missing name")));
                    let mut lf = LetFinder { src, name: nm, found: vec![] };
                    lf.visit_block(loc.block);
                    let pos = *lf.found.get(n).unwrap_or_else(|| lost("no such untyped let"));
                    ed.insert(pos, format!(": {}", t.trim()), 0, a);
                    n_r23 += 1;
                }
                "attr" => ed.insert(fstart, format!("{}    ", t), 0, a),
                "sig" => ed.insert(block_open, format!("\n{}    ", t), 0, a),
                "entry" => ed.insert(block_open + 1, format!("\n{}", t.trim_end_matches('\n')), 0, a),
                "loop" => {
                    let k: usize = words.get(1).and_then(|w| w.parse().ok()).unwrap_or_else(|| lost("bad loop index"));
                    // `optional`: a hint for a loop that no longer exists is dropped (the function must then verify without it)
                    if scan.loops.get(k).is_none() && words.last() == Some(&"optional") {
                        anchors_used.push(format!("{} [SKIPPED: no such loop]", a));
                        continue;
                    }
                    let lp = scan.loops.get(k).unwrap_or_else(|| lost("no such loop"));
                    match words.get(2).copied() {
                        Some("label") => {
                            if lp.kind != "for" {
                                lost("label on a non-for loop");
                            }
                            let nm = words.get(3).unwrap_or_else(|| lost("missing label"));
                            ed.insert(lp.head.unwrap().0, format!("{}: ", nm), 0, a);
                        }
                        Some("inv") => ed.insert(lp.body_open, format!("\n{}        ", t), 0, a),
                        Some("top") => ed.insert(lp.body_open + 1, format!("\n{}", t.trim_end_matches('\n')), 0, a),
                        Some("end") => { let t2 = if ctx.ablate { "proof { assume(false); } // ABLATED: body obligations only\n".to_string() } else { t.clone() }; ed.insert(lp.body_close, format!("{}        ", t2), 3, a) }
                        _ => lost("bad loop anchor"),
                    }
                }
                "before_loop" | "after_loop" => {
                    let k: usize = words.get(1).and_then(|w| w.parse().ok()).unwrap_or_else(|| lost("bad loop index"));
                    let lp = scan.loops.get(k).unwrap_or_else(|| lost("no such loop"));
                    let st = stmt_of(lp.whole, &scan.stmts).unwrap_or(lp.whole);
                    if words[0] == "before_loop" {
                        ed.insert(st.0, format!("{}        ", t), 2, a);
                    } else {
                        ed.insert(st.1, format!("\n{}", t.trim_end_matches('\n')), 1, a);
                    }
                }
                "before_let" | "after_let" => {
                    let (nm, n) = resolve_n(words.get(1).unwrap_or_else(|| lost("missing name")));
                    let st = scan.stmts.iter().filter(|s| s.lets.iter().any(|l| *l == nm)).nth(n).unwrap_or_else(|| lost("no such let"));
                    if words[0] == "before_let" {
                        ed.insert(st.range.0, format!("{}        ", t), 2, a);
                    } else {
                        ed.insert(st.range.1, format!("\n{}", t.trim_end_matches('\n')), 1, a);
                    }
                }
                "before_call" | "after_call" => {
                    let (nm, n) = resolve_n(words.get(1).unwrap_or_else(|| lost("missing name")));
                    let c = scan.calls.iter().filter(|c| c.name == nm).nth(n).unwrap_or_else(|| lost("no such call"));
                    let st = stmt_of(c.range, &scan.stmts).unwrap_or_else(|| lost("call not inside a statement"));
                    if words[0] == "before_call" {
                        ed.insert(st.0, format!("{}        ", t), 2, a);
                    } else {
                        ed.insert(st.1, format!("\n{}", t.trim_end_matches('\n')), 1, a);
                    }
                }
                "closure" => {
                    // `closure k`: the header of the k-th closure (params, return name, ensures) is replaced by the given text;
                    // the body text is kept verbatim inside a block
                    let k: usize = words.get(1).and_then(|w| w.parse().ok()).unwrap_or_else(|| lost("bad closure index"));
                    let (whole, body) = *scan.closures.get(k).unwrap_or_else(|| lost("no such closure"));
                    ed.replace(whole.0, whole.1, vec![Piece::Lit(format!("{} {{ ", t.trim())), Piece::Sub(body.0, body.1), Piece::Lit(" }".into())], a);
                }
                "before_tail" => {
                    let last = loc.block.stmts.last().unwrap_or_else(|| lost("empty body"));
                    let (s, _) = src.range(last.span());
                    let t2 = if ctx.ablate { "proof { assume(false); } // ABLATED: body obligations only\n".to_string() } else { t.clone() };
                    ed.insert(s, format!("{}        ", t2), 2, a);
                }
                "at_end" => {
                    let t = &(if ctx.ablate { "proof { assume(false); } // ABLATED: body obligations only\n".to_string() } else { t.clone() });
                    // end of the body: before a tail expression if the body has one, else at the closing brace
                    match loc.block.stmts.last() {
                        Some(syn::Stmt::Expr(e, None)) if !matches!(loc.sig.output, syn::ReturnType::Default) => {
                            let (s, _) = src.range(e.span());
                            ed.insert(s, format!("{}        ", t), 2, a)
                        }
                        _ => ed.insert(block_close, format!("{}    ", t), 3, a),
                    }
                }
                _ => lost("unknown anchor kind"),
            }
            anchors_used.push(a.clone());
        }
        if ctx.vacuity {
            ed.insert(block_open + 1, format!("\n        assert(false); // VACUITY-PROBE {} entry", d.qual), 1, "vacuity-entry");
            for (k, lp) in scan.loops.iter().enumerate() {
                ed.insert(lp.body_open + 1, format!("\n        assert(false); // VACUITY-PROBE {} loop-{}", d.qual, k), 1, "vacuity-loop");
            }
        }
        // rewrite rules
        {
            let thread: Vec<(String, String)> = d.sections.iter().filter_map(|(a, t)| {
                let w: Vec<&str> = a.split_whitespace().collect();
                if w[0] == "thread" { Some((w.get(1).unwrap_or_else(|| fail(format!("{}:{}: //@thread needs a callee", tfile, d.tline))).to_string(), t.trim().to_string())) } else { None }
            }).collect();
            let self_ty = { let q = d.qual.split('@').last().unwrap_or(""); q.rsplit_once("::").map(|(t, _)| t.to_string()) };
            let mut rw = Rewriter { src, ed: &mut ed, abort_allowed, fired: BTreeMap::new(), thread, tostring: d.opts.has("tostring"),
                                    sumspec: d.sections.iter().find(|(a, _)| a == "sumspec").map(|(_, t)| t.trim().to_string()),
                                    known: &ctx.known, self_ty, inline_stack: vec![d.qual.split('@').last().unwrap_or("").rsplit("::").next().unwrap_or("").to_string()],
                                    inline_visited: Default::default(), consumed_closures: vec![], bare_closures: vec![] };
            rw.visit_block(loc.block);
            if !rw.bare_closures.is_empty() && !d.opts.has("bareclosures") {
                fail(format!("{}:{}: {} contains a closure without a contract (source line {}): its result would be unconstrained for the verifier, so the function is not decidable as it stands (unsupported construct)",
                             tfile, d.tline, d.qual, rw.bare_closures[0]));
            }
            fired = rw.fired;
        }
        let body = ed.render(fstart, fend, None);
        for (i, u) in ed.used.iter().enumerate() {
            if !u {
                fail(format!("{}:{}: edit `{}` in {} fell inside rewritten text (lost anchor)", tfile, d.tline, ed.edits[i].what, d.qual));
            }
        }
        body
    };
    if n_extra > 0 {
        *fired.entry("R22".into()).or_insert(0) += n_extra;
    }
    if n_r23 > 0 {
        *fired.entry("R23".into()).or_insert(0) += n_r23;
    }
    for (k, v) in &fired {
        *ctx.rules_fired.entry(k.clone()).or_insert(0) += v;
    }
    // automatic import of same-file constants: a SCREAMING_CASE identifier used in the body that names a top-level const/static of
    // the same file, and is neither declared by an `//@item` of any template nor emitted yet, is copied verbatim in front of the
    // function (so a renamed or newly introduced constant does not make the unit undecidable)
    if !mode_assume {
        // identifiers of the RENDERED text (it includes the text of helpers inlined by R29)
        let mut ids: Vec<String> = vec![];
        {
            let mut cur = String::new();
            for ch in text.chars().chain(std::iter::once(' ')) {
                if ch.is_ascii_alphanumeric() || ch == '_' { cur.push(ch); } else {
                    if cur.len() >= 2 && cur.chars().next().map(|c| c.is_ascii_uppercase()).unwrap_or(false)
                        && cur.chars().all(|c| c.is_ascii_uppercase() || c.is_ascii_digit() || c == '_') { ids.push(cur.clone()); }
                    cur.clear();
                }
            }
        }
        let mut auto: Vec<(String, String)> = vec![];
        {
            let src = &ctx.srcs[&d.file];
            for id in ids {
                if ctx.known_items.contains(&id) || ctx.emitted_items.contains(&id) || auto.iter().any(|(n, _)| *n == id) { continue; }
                for it in &src.ast.items {
                    let (nm, sp) = match it {
                        syn::Item::Const(c) => (c.ident.to_string(), c.span()),
                        syn::Item::Static(c) => (c.ident.to_string(), c.span()),
                        _ => continue,
                    };
                    if nm == id {
                        let (x, y) = src.range(sp);
                        let mut t = src.text[x..y].to_string();
                        // R20 on the imported item: `&T` in a const/static type is `&'static T`
                        let ty: Option<&syn::Type> = match it { syn::Item::Const(c) => Some(&*c.ty), syn::Item::Static(c) => Some(&*c.ty), _ => None };
                        if let Some(syn::Type::Reference(r)) = ty {
                            if r.lifetime.is_none() {
                                let amp_end = src.range(r.and_token.span()).1;
                                if amp_end >= x && amp_end <= y { t.insert_str(amp_end - x, "'static "); }
                            }
                        }
                        auto.push((id.clone(), t));
                    }
                }
            }
        }
        for (n, t) in auto {
            ctx.emitted_items.insert(n.clone());
            // emitted at the top of the unit (the function may sit inside an impl block, where a const would be an associated one)
            ctx.auto_text.push_str(&format!("// >>> auto-imported constant {} from /repo/{}\n{}\n// <<< {}\n", n, d.file, t, n));
        }
    }
    let src = &ctx.srcs[&d.file];
    let (l0, l1) = (src.line_of(fstart), src.line_of(fend));
    let srctext = src.text[fstart..fend].to_string();
    let start_line = ctx.out_line + 1;
    let marker = format!(
        "// >>> {} {} from /repo/{}:{}-{} [{}]\n",
        if mode_assume { "assumed-contract" } else { "extracted" },
        d.qual,
        d.file,
        l0,
        l1,
        props.join(",")
    );
    ctx.emit(&marker);
    ctx.emit("    ");
    ctx.emit(&text);
    ctx.emit("\n");
    let end_line = ctx.out_line;
    ctx.emit(&format!("// <<< {}\n", d.qual));
    ctx.regions.push(json!({
        "kind": "fn", "name": d.qual, "mode": if mode_assume {"assume"} else {"prove"},
        "props": props, "out_lines": [start_line, end_line],
        "repo_file": d.file.split('#').next().unwrap(), "repo_lines": [l0, l1], "src_fnv64": sha(&srctext),
        "outlined": d.file.contains('#'),
        "abort_allowed": abort_allowed,
        "rules": fired, "anchors": anchors_used, "template": format!("{}:{}", tfile, d.tline),
    }));
}

fn process_item(ctx: &mut Ctx, file: &str, name: &str, opts: &Opts, tfile: &str, tline: usize) {
    ctx.src(file);
    let src = &ctx.srcs[file];
    let mut found: Option<(Span, &[syn::Attribute], Option<Span>)> = None;
    for it in &src.ast.items {
        let (id, attrs, sp, vis): (String, &[syn::Attribute], Span, Option<Span>) = match it {
            syn::Item::Struct(s) if matches!(s.vis, syn::Visibility::Inherited) => (s.ident.to_string(), &s.attrs, s.span(), Some(s.struct_token.span())),
            syn::Item::Struct(s) => (s.ident.to_string(), &s.attrs, s.span(), None),
            syn::Item::Enum(s) => (s.ident.to_string(), &s.attrs, s.span(), Some(s.vis.span())),
            syn::Item::Const(s) => (s.ident.to_string(), &s.attrs, s.span(), Some(s.vis.span())),
            syn::Item::Static(s) => (s.ident.to_string(), &s.attrs, s.span(), Some(s.vis.span())),
            syn::Item::Type(s) => (s.ident.to_string(), &s.attrs, s.span(), Some(s.vis.span())),
            syn::Item::Trait(s) => (s.ident.to_string(), &s.attrs, s.span(), Some(s.vis.span())),
            _ => continue,
        };
        if id == name {
            found = Some((sp, attrs, vis));
            break;
        }
    }
    if found.is_none() && !name.is_empty() && name.chars().all(|c| c.is_ascii_uppercase() || c.is_ascii_digit() || c == '_') {
        // a constant that no longer exists under this name (renamed / removed): not emitted. Code that still refers to it fails
        // to compile (exit 2); a renamed constant is picked up by the automatic import below.
        ctx.emit(&format!("// (constant {} is absent from /repo/{})\n", name, file));
        return;
    }
    let (sp, attrs, kw) = found.unwrap_or_else(|| fail(format!("{}:{}: item {} not found in {}", tfile, tline, name, file)));
    let (mut a, b) = src.range(sp);
    if let Some(at) = attrs.first() {
        let s = src.range(at.span()).0;
        if s < a {
            a = s;
        }
    }
    let mut ed = Editor::new(&src.text);
    let mut notes = vec![];
    let mut ed_static: Option<usize> = None;
    // R20: `const X: &T = ..` -> `const X: &'static T = ..` (the elided lifetime of a const IS 'static; Verus wants it spelled out)
    for it in &src.ast.items {
        if let syn::Item::Const(c) = it {
            if c.ident == name {
                if let syn::Type::Reference(r) = &*c.ty {
                    if r.lifetime.is_none() {
                        let amp = src.range(r.and_token.span());
                        ed_static = Some(amp.1);
                    }
                }
            }
        }
    }
    if let Some(pos) = ed_static {
        ed.insert(pos, "'static ".to_string(), 0, "R20");
        notes.push("R20: elided 'static lifetime spelled out".to_string());
    }
    if let (Some(v), Some(k)) = (opts.get("vis"), kw) {
        // a private struct is made visible to the spec functions of the unit (single module: no effect on behaviour)
        ed.insert(src.range(k).0, format!("{} ", v), 0, "vis");
        notes.push(format!("visibility {} added", v));
    }
    for at in attrs {
        let is_derive = at.path().is_ident("derive");
        let is_doc = at.path().is_ident("doc");
        let (x, y) = src.range(at.span());
        if is_derive {
            if let Some(dv) = opts.get("derive") {
                let list = if dv == "none" { String::new() } else { format!("#[derive({})]", dv.replace(',', ", ")) };
                ed.replace(x, y, vec![Piece::Lit(list)], "derive");
                notes.push(format!("derive list replaced by [{}]", dv));
            }
        } else if !is_doc && opts.has("noattrs") {
            ed.replace(x, y, vec![Piece::Lit(String::new())], "noattrs");
        }
    }
    let mut text = ed.render(a, b, None);
    // R26 (`execconst`): `const X: T = F(args);` whose initialiser calls an exec function becomes
    //   `exec const X: T ensures X == F(args) { F(args) }`  (type and initialiser text verbatim; F must have a spec counterpart)
    if opts.has("execconst") {
        for it in &src.ast.items {
            if let syn::Item::Const(c) = it {
                if c.ident == name {
                    let ty = &src.text[src.range(c.ty.span()).0..src.range(c.ty.span()).1];
                    let ex = &src.text[src.range(c.expr.span()).0..src.range(c.expr.span()).1];
                    let vis = &src.text[src.range(c.vis.span()).0..src.range(c.vis.span()).1];
                    text = format!("{} exec const {}: {}\n    ensures {} == {}\n{{ {} }}", vis, name, ty, name, ex, ex);
                    notes.push("R26: const with an exec initialiser turned into `exec const .. ensures X == init`".to_string());
                }
            }
        }
    }
    let (l0, l1) = (src.line_of(a), src.line_of(b));
    let srctext = src.text[a..b].to_string();
    let start_line = ctx.out_line + 1;
    ctx.emitted_items.insert(name.to_string());
    ctx.emit(&format!("// >>> item {} from /repo/{}:{}-{}\n", name, file, l0, l1));
    ctx.emit(&text);
    ctx.emit("\n");
    let end_line = ctx.out_line;
    ctx.emit(&format!("// <<< item {}\n", name));
    ctx.regions.push(json!({
        "kind": "item", "name": name, "out_lines": [start_line, end_line],
        "repo_file": file, "repo_lines": [l0, l1], "src_fnv64": sha(&srctext), "notes": notes,
    }));
}

fn process_template(ctx: &mut Ctx, path: &Path, assume: bool, depth: usize) {
    if depth > 8 {
        fail(format!("include depth exceeded at {}", path.display()));
    }
    let text = std::fs::read_to_string(path).unwrap_or_else(|e| fail(format!("cannot read template {}: {}", path.display(), e)));
    let tfile = path.file_name().unwrap().to_string_lossy().to_string();
    // conditional sections: //@define N, //@ifdef N, //@ifndef N, //@else, //@endif (line-level preprocessing;
    // lines that are switched off are replaced by empty lines so that template line numbers stay meaningful)
    let mut pre: Vec<String> = vec![];
    {
        let mut stack: Vec<(bool, bool)> = vec![]; // (active, parent_active)
        for (n, l) in text.lines().enumerate() {
            let t = l.trim_start();
            let active = stack.last().map(|x| x.0).unwrap_or(true);
            if let Some(r) = t.strip_prefix("//@") {
                let w: Vec<&str> = r.split_whitespace().collect();
                match w.first().copied() {
                    Some("define") if active => { ctx.defines.push(w.get(1).unwrap_or(&"").to_string()); pre.push(String::new()); continue; }
                    Some("ifdef") | Some("ifndef") => {
                        let d = ctx.defines.iter().any(|x| Some(&x.as_str()) == w.get(1));
                        let c = if w[0] == "ifdef" { d } else { !d };
                        stack.push((active && c, active));
                        pre.push(String::new());
                        continue;
                    }
                    Some("else") => {
                        let (a, pa) = stack.pop().unwrap_or_else(|| fail(format!("{}:{}: //@else without //@ifdef", tfile, n + 1)));
                        stack.push((pa && !a, pa));
                        pre.push(String::new());
                        continue;
                    }
                    Some("endif") => {
                        stack.pop().unwrap_or_else(|| fail(format!("{}:{}: //@endif without //@ifdef", tfile, n + 1)));
                        pre.push(String::new());
                        continue;
                    }
                    _ => {}
                }
            }
            if active { pre.push(l.to_string()); } else { pre.push("//@skip".to_string()); }
        }
        if !stack.is_empty() { fail(format!("{}: unterminated //@ifdef", tfile)); }
    }
    let lines: Vec<&str> = pre.iter().map(|x| x.as_str()).collect();
    let mut i = 0;
    let mut region_stack: Vec<(String, Vec<String>, usize)> = vec![];
    while i < lines.len() {
        let line = lines[i];
        let t = line.trim_start();
        if let Some(rest) = t.strip_prefix("//@") {
            let words: Vec<&str> = rest.split_whitespace().collect();
            if words.is_empty() {
                i += 1;
                continue;
            }
            match words[0] {
                "skip" => {}
                "include" => {
                    let o = Opts::parse(&words[2..]);
                    let sub = ctx.tdir.join(words[1]);
                    let sub_assume = assume || o.get("mode") == Some("assume");
                    process_template(ctx, &sub, sub_assume, depth + 1);
                }
                "unit_props" => {
                    ctx.unit_props = words[1..].iter().flat_map(|w| w.split(',')).map(|s| s.to_string()).collect();
                }
                "item" => {
                    let o = Opts::parse(&words[3..]);
                    process_item(ctx, words[1], words[2], &o, &tfile, i + 1);
                }
                "enum_rank" => {
                    // spec fn giving the declaration index of each variant (what derived PartialOrd compares)
                    let (file, en, fname) = (words[1], words[2], words[3]);
                    ctx.src(file);
                    let src = &ctx.srcs[file];
                    let mut vs: Option<Vec<String>> = None;
                    for it in &src.ast.items {
                        if let syn::Item::Enum(e) = it {
                            if e.ident == en {
                                if e.variants.iter().any(|v| !matches!(v.fields, syn::Fields::Unit) || v.discriminant.is_some()) {
                                    fail(format!("{}:{}: enum {} is not field-less/implicit", tfile, i + 1, en));
                                }
                                vs = Some(e.variants.iter().map(|v| v.ident.to_string()).collect());
                            }
                        }
                    }
                    let vs = vs.unwrap_or_else(|| fail(format!("{}:{}: enum {} not found in {}", tfile, i + 1, en, file)));
                    let mut t = format!("// >>> generated from the declaration order of enum {} in /repo/{}\npub open spec fn {}(t: {}) -> int {{\n    match t {{\n", en, file, fname, en);
                    for (k, v) in vs.iter().enumerate() {
                        t.push_str(&format!("        {}::{} => {},\n", en, v, k));
                    }
                    t.push_str("    }\n}\n");
                    ctx.emit(&t);
                }
                "stmt" => {
                    // R9: //@stmt <file> <fn> let=<name> name=<newfn> [props=..]   followed by lines:
                    //   //@params <text>   //@rettype <text>   //@result <expr>   //@sig ...text...   //@end
                    let tline = i + 1;
                    let file = words[1].to_string();
                    let fname = words[2].to_string();
                    let o = Opts::parse(&words[3..]);
                    let letname = o.get("let").unwrap_or_else(|| fail(format!("{}:{}: //@stmt needs let=", tfile, tline))).to_string();
                    let newname = o.get("name").unwrap_or_else(|| fail(format!("{}:{}: //@stmt needs name=", tfile, tline))).to_string();
                    let props: Vec<String> = o.get("props").map(|p| p.split(',').map(|s| s.to_string()).collect()).unwrap_or_default();
                    let (mut params, mut rettype, mut result, mut sig) = (String::new(), String::new(), String::new(), String::new());
                    let mut j = i + 1;
                    let mut in_sig = false;
                    loop {
                        if j >= lines.len() { fail(format!("{}:{}: unterminated //@stmt", tfile, tline)); }
                        let lt = lines[j].trim_start();
                        if let Some(r) = lt.strip_prefix("//@") {
                            let w: Vec<&str> = r.splitn(2, ' ').collect();
                            in_sig = false;
                            match w[0] {
                                "end" => break,
                                "params" => params = w.get(1).unwrap_or(&"").to_string(),
                                "rettype" => rettype = w.get(1).unwrap_or(&"").to_string(),
                                "result" => result = w.get(1).unwrap_or(&"").to_string(),
                                "sig" => in_sig = true,
                                x => fail(format!("{}:{}: unknown //@stmt section {}", tfile, j + 1, x)),
                            }
                        } else if in_sig { sig.push_str(lines[j]); sig.push('\n'); }
                        j += 1;
                    }
                    ctx.src(&file);
                    let src = &ctx.srcs[&file];
                    let loc = find_fn(&src.ast.items, &fname).unwrap_or_else(|| fail(format!("{}:{}: function {} not found in {}", tfile, tline, fname, file)));
                    let mut scan = Scan { src, loops: vec![], stmts: vec![], calls: vec![], closures: vec![] };
                    scan.visit_block(loc.block);
                    let st = scan.stmts.iter().find(|s| s.lets.iter().any(|l| *l == letname))
                        .unwrap_or_else(|| fail(format!("{}:{}: lost anchor: no `let {}` in {}", tfile, tline, letname, fname)));
                    let (a, b) = st.range;
                    let text = src.text[a..b].to_string();
                    let (l0, l1) = (src.line_of(a), src.line_of(b));
                    let start_line = ctx.out_line + 1;
                    let h = sha(&text);
                    ctx.emit(&format!("// >>> extracted statement `let {}` of {} from /repo/{}:{}-{} (R9: outlined into a function) [{}]\n", letname, fname, file, l0, l1, props.join(",")));
                    ctx.emit(&format!("fn {}({}) -> (r: {})\n{}{{\n        {}\n        {}\n}}\n", newname, params, rettype, sig, text, result));
                    let end_line = ctx.out_line;
                    ctx.emit(&format!("// <<< {}\n", newname));
                    ctx.regions.push(json!({"kind": "fn", "name": newname, "mode": "prove", "props": props, "out_lines": [start_line, end_line],
                        "repo_file": file, "repo_lines": [l0, l1], "src_fnv64": h, "abort_allowed": false, "rules": {"R9": 1}, "anchors": [], "template": format!("{}:{}", tfile, tline)}));
                    *ctx.rules_fired.entry("R9".into()).or_insert(0) += 1;
                    i = j;
                }
                "outline" => {
                    // R9 (generalised): //@outline <file> <fn> name=<newfn> from=<anchor> [to=<anchor>]
                    //   anchors: loop:<k> | let:<name>[#n] | call:<name>[#n]   (whole statements of <fn>, inclusive range)
                    //   sections: //@params <text>  //@rettype <text>  //@result <expr>  //@end
                    // registers a virtual source `<file>#<newfn>` holding `fn <newfn>(<params>) [-> <rettype>] { <the statements, verbatim> <result> }`,
                    // line-aligned with the real file; a following `//@fn <file>#<newfn> <newfn> ...` treats it like any other function.
                    let tline = i + 1;
                    let file = words[1].to_string();
                    let fname = words[2].to_string();
                    let o = Opts::parse(&words[3..]);
                    let newname = o.get("name").unwrap_or_else(|| fail(format!("{}:{}: //@outline needs name=", tfile, tline))).to_string();
                    let from = o.get("from").unwrap_or_else(|| fail(format!("{}:{}: //@outline needs from=", tfile, tline))).to_string();
                    let to = o.get("to").unwrap_or(&from).to_string();
                    let (mut params, mut rettype, mut result) = (String::new(), String::new(), String::new());
                    let mut j = i + 1;
                    loop {
                        if j >= lines.len() { fail(format!("{}:{}: unterminated //@outline", tfile, tline)); }
                        let lt = lines[j].trim_start();
                        if let Some(r) = lt.strip_prefix("//@") {
                            let w: Vec<&str> = r.splitn(2, ' ').collect();
                            match w[0] {
                                "end" => break,
                                "params" => params = w.get(1).unwrap_or(&"").to_string(),
                                "rettype" => rettype = w.get(1).unwrap_or(&"").to_string(),
                                "result" => result = w.get(1).unwrap_or(&"").to_string(),
                                x => fail(format!("{}:{}: unknown //@outline section {}", tfile, j + 1, x)),
                            }
                        }
                        j += 1;
                    }
                    ctx.src(&file);
                    let vsrc = {
                        let src = &ctx.srcs[&file];
                        let loc = find_fn(&src.ast.items, &fname).unwrap_or_else(|| fail(format!("{}:{}: function {} not found in {}", tfile, tline, fname, file)));
                        let mut scan = Scan { src, loops: vec![], stmts: vec![], calls: vec![], closures: vec![] };
                        scan.visit_block(loc.block);
                        let resolve = |anchor: &str| -> (usize, usize) {
                            let lost = |what: &str| -> ! { fail(format!("{}:{}: lost anchor `{}` in {} ({})", tfile, tline, anchor, fname, what)) };
                            let (kind, rest) = anchor.split_once(':').unwrap_or_else(|| lost("anchor needs kind:name"));
                            let stmt_of = |r: (usize, usize)| -> Option<(usize, usize)> {
                                scan.stmts.iter().filter(|s| s.range.0 <= r.0 && r.1 <= s.range.1).min_by_key(|s| s.range.1 - s.range.0).map(|s| s.range)
                            };
                            match kind {
                                "loop" => {
                                    let k: usize = rest.parse().unwrap_or_else(|_| lost("bad loop index"));
                                    let lp = scan.loops.get(k).unwrap_or_else(|| lost("no such loop"));
                                    stmt_of(lp.whole).unwrap_or(lp.whole)
                                }
                                "let" => {
                                    let (nm, n) = resolve_n(rest);
                                    scan.stmts.iter().filter(|s| s.lets.iter().any(|l| *l == nm)).nth(n).unwrap_or_else(|| lost("no such let")).range
                                }
                                "call" => {
                                    let (nm, n) = resolve_n(rest);
                                    let c = scan.calls.iter().filter(|c| c.name == nm).nth(n).unwrap_or_else(|| lost("no such call"));
                                    stmt_of(c.range).unwrap_or_else(|| lost("call not inside a statement"))
                                }
                                _ => lost("unknown anchor kind"),
                            }
                        };
                        let (a, _) = resolve(&from);
                        let (_, b) = resolve(&to);
                        if b <= a { fail(format!("{}:{}: lost anchor: outline range of {} is empty/reversed", tfile, tline, fname)); }
                        let l0 = src.line_of(a);
                        let ls = src.line_starts[l0 - 1];
                        let mut vt = String::new();
                        for _ in 0..l0.saturating_sub(2) { vt.push('\n'); }
                        let ret = if rettype.trim().is_empty() { String::new() } else { format!(" -> {}", rettype.trim()) };
                        vt.push_str(&format!("fn {}({}){} {{\n", newname, params.trim(), ret));
                        for _ in 0..(a - ls) { vt.push(' '); }
                        vt.push_str(&src.text[a..b]);
                        vt.push_str(&format!("\n        {}\n}}\n", result.trim()));
                        let ast = syn::parse_file(&vt).unwrap_or_else(|e| fail(format!("{}:{}: outlined text of {} does not parse: {}", tfile, tline, fname, e)));
                        let mut line_starts = vec![0usize];
                        for (k, bb) in vt.bytes().enumerate() { if bb == b'\n' { line_starts.push(k + 1); } }
                        Src { rel: file.clone(), text: vt, ast, line_starts }
                    };
                    ctx.srcs.insert(format!("{}#{}", file, newname), vsrc);
                    *ctx.rules_fired.entry("R9".into()).or_insert(0) += 1;
                    i = j;
                }
                "proofonly" => {
                    if assume {
                        // skip to endproofonly
                        let mut j = i + 1;
                        while j < lines.len() && !lines[j].trim_start().starts_with("//@endproofonly") {
                            j += 1;
                        }
                        if j >= lines.len() {
                            fail(format!("{}:{}: unterminated //@proofonly", tfile, i + 1));
                        }
                        i = j;
                    }
                }
                "endproofonly" => {}
                "region" => {
                    let o = Opts::parse(&words[2..]);
                    let props = o.get("props").map(|p| p.split(',').map(|s| s.to_string()).collect()).unwrap_or_default();
                    region_stack.push((words[1].to_string(), props, ctx.out_line + 1));
                }
                "endregion" => {
                    let (name, props, start) = region_stack.pop().unwrap_or_else(|| fail(format!("{}:{}: endregion without region", tfile, i + 1)));
                    ctx.regions.push(json!({"kind":"region","name":name,"props":props,"out_lines":[start, ctx.out_line],
                        "template": format!("{}:{}", tfile, i+1), "mode": if assume {"assume"} else {"prove"}}));
                }
                "fn" => {
                    let tline = i + 1;
                    let mut d = FnDirective {
                        file: words.get(1).unwrap_or_else(|| fail(format!("{}:{}: //@fn needs file", tfile, tline))).to_string(),
                        qual: words.get(2).unwrap_or_else(|| fail(format!("{}:{}: //@fn needs name", tfile, tline))).to_string(),
                        opts: Opts::parse(&words[3..]),
                        ret: None,
                        sections: vec![],
                        tline,
                    };
                    let mut cur: Option<String> = None;
                    let mut buf = String::new();
                    let mut j = i + 1;
                    loop {
                        if j >= lines.len() {
                            fail(format!("{}:{}: unterminated //@fn {}", tfile, tline, d.qual));
                        }
                        let l = lines[j];
                        let lt = l.trim_start();
                        if lt.starts_with("//@skip") {
                            j += 1;
                            continue;
                        }
                        if let Some(r) = lt.strip_prefix("//@") {
                            let w: Vec<&str> = r.split_whitespace().collect();
                            if let Some(c) = cur.take() {
                                d.sections.push((c, std::mem::take(&mut buf)));
                            }
                            match w.first().copied() {
                                Some("skip") => {}
                                Some("end") => break,
                                Some("ret") => d.ret = Some(w.get(1).unwrap_or_else(|| fail(format!("{}:{}: //@ret needs a name", tfile, j + 1))).to_string()),
                                Some(_) => {
                                    if w[0] == "loop" && w.get(2) == Some(&"label") {
                                        d.sections.push((w.join(" "), String::new()));
                                    } else {
                                        cur = Some(w.join(" "));
                                    }
                                }
                                None => {}
                            }
                        } else if cur.is_some() {
                            let _ = writeln!(buf, "{}", l);
                        } else if !lt.is_empty() {
                            fail(format!("{}:{}: text outside a section in //@fn {}", tfile, j + 1, d.qual));
                        }
                        j += 1;
                    }
                    process_fn(ctx, &d, assume, &tfile);
                    i = j;
                }
                other => fail(format!("{}:{}: unknown directive //@{}", tfile, i + 1, other)),
            }
        } else {
            ctx.emit(line);
            ctx.emit("\n");
        }
        i += 1;
    }
    if !region_stack.is_empty() {
        fail(format!("{}: unterminated //@region {}", tfile, region_stack[0].0));
    }
}

fn main() {
    let args: Vec<String> = std::env::args().collect();
    let mut repo = PathBuf::from("/repo");
    let mut template = None;
    let mut out = None;
    let mut map = None;
    let mut vacuity = false;
    let mut ablate = false;
    let mut i = 1;
    while i < args.len() {
        match args[i].as_str() {
            "--repo" => { repo = PathBuf::from(&args[i + 1]); i += 1; }
            "--template" => { template = Some(PathBuf::from(&args[i + 1])); i += 1; }
            "--out" => { out = Some(PathBuf::from(&args[i + 1])); i += 1; }
            "--map" => { map = Some(PathBuf::from(&args[i + 1])); i += 1; }
            "--vacuity" => { vacuity = true; }
            "--ablate" => { ablate = true; }
            x => fail(format!("unknown argument {}", x)),
        }
        i += 1;
    }
    let template = template.unwrap_or_else(|| fail("--template required".into()));
    let out = out.unwrap_or_else(|| fail("--out required".into()));
    let tdir = template.parent().unwrap().to_path_buf();
    let mut ctx = Ctx { repo, tdir, srcs: BTreeMap::new(), out: String::new(), out_line: 0, regions: vec![], rules_fired: BTreeMap::new(), unit_props: vec![], vacuity, ablate, defines: vec![], known: Default::default(), known_items: Default::default(), emitted_items: Default::default(), auto_text: String::new() };
    // R29 bookkeeping: every function named in any template of the contracts directory has a contract of its own
    {
        fn scan(dir: &Path, out: &mut std::collections::BTreeSet<String>, items: &mut std::collections::BTreeSet<String>) {
            if let Ok(rd) = std::fs::read_dir(dir) {
                for e in rd.flatten() {
                    let p = e.path();
                    if p.is_dir() { scan(&p, out, items); continue; }
                    if p.extension().and_then(|x| x.to_str()) != Some("vt") { continue; }
                    if let Ok(t) = std::fs::read_to_string(&p) {
                        for l in t.lines() {
                            let l = l.trim_start();
                            // constants / statics written by hand in a template (shims) also count as declared
                            for kw in ["const ", "static "] {
                                let mut rest = l;
                                while let Some(pos) = rest.find(kw) {
                                    let tail = &rest[pos + kw.len()..];
                                    let id: String = tail.chars().take_while(|c| c.is_ascii_alphanumeric() || *c == '_').collect();
                                    if id.len() >= 2 { items.insert(id); }
                                    rest = tail;
                                }
                            }
                            if let Some(r) = l.strip_prefix("//@item ") {
                                if let Some(q) = r.split_whitespace().nth(1) { items.insert(q.to_string()); }
                            }
                            if let Some(r) = l.strip_prefix("//@fn ") {
                                if let Some(q) = r.split_whitespace().nth(1) {
                                    let q = q.split('@').last().unwrap_or(q);
                                    let q = q.split('#').next().unwrap_or(q);
                                    out.insert(q.rsplit("::").next().unwrap_or(q).to_string());
                                }
                            }
                        }
                    }
                }
            }
        }
        let tdir = ctx.tdir.clone();
        let (mut k, mut it) = (Default::default(), Default::default());
        scan(&tdir, &mut k, &mut it);
        ctx.known = k;
        ctx.known_items = it;
    }
    process_template(&mut ctx, &template, false, 0);
    // auto-imported constants go right after the opening `verus! {`; every recorded output line moves down accordingly
    if !ctx.auto_text.is_empty() {
        if let Some(pos) = ctx.out.find("verus! {\n") {
            let at = pos + "verus! {\n".len();
            let head_lines = ctx.out[..at].matches('\n').count();
            let shift = ctx.auto_text.matches('\n').count();
            ctx.out.insert_str(at, &ctx.auto_text.clone());
            ctx.out_line += shift;
            for r in ctx.regions.iter_mut() {
                if let Some(ol) = r.get_mut("out_lines").and_then(|v| v.as_array_mut()) {
                    for v in ol.iter_mut() {
                        if let Some(n) = v.as_u64() { if n as usize > head_lines { *v = json!(n as usize + shift); } }
                    }
                }
            }
        } else {
            fail("auto-import: no `verus! {` line in the unit template".to_string());
        }
    }
    std::fs::write(&out, &ctx.out).unwrap_or_else(|e| fail(format!("cannot write {}: {}", out.display(), e)));
    let mut probes = vec![];
    for (n, l) in ctx.out.lines().enumerate() {
        if let Some(p) = l.find("// VACUITY-PROBE ") {
            probes.push(json!({"line": n + 1, "what": l[p + 17..].trim()}));
        }
    }
    if let Some(m) = map {
        let j = json!({"vacuity_probes": probes, "template": template.display().to_string(), "regions": ctx.regions, "rules_fired": ctx.rules_fired,
            "unit_props": ctx.unit_props, "lines": ctx.out_line});
        std::fs::write(&m, serde_json::to_string_pretty(&j).unwrap()).unwrap();
    }
}
