#!/usr/bin/env python3
"""Consistency lint: every function/region tagged with property P (in prove mode) must live in a unit that P's quick check runs.
Otherwise a failed obligation there could never be reported under P."""
import json, os, subprocess, sys
V = os.path.dirname(os.path.dirname(os.path.abspath(__file__)))
u = json.load(open(os.path.join(V, "units.json")))
units = list(u["units"].keys()) if isinstance(u.get("units"), dict) else u["units"]
os.makedirs(os.path.join(V, "work", "lint"), exist_ok=True)
where = {}   # (prop, region) -> [units proving it]
for un in units:
    out = os.path.join(V, "work", "lint", un + ".rs")
    mp = os.path.join(V, "work", "lint", un + ".map.json")
    r = subprocess.run([os.path.join(V, "tools/extractor/target/release/extractor"), "--repo", "/repo", "--template",
                        os.path.join(V, "contracts", "unit_%s.vt" % un), "--out", out, "--map", mp], capture_output=True, text=True)
    if r.returncode != 0:
        print("extract failed", un, r.stderr[-300:]); sys.exit(2)
    for reg in json.load(open(mp))["regions"]:
        if reg.get("mode") == "assume":
            continue
        for p in reg.get("props", []):
            where.setdefault((p, reg["name"]), []).append(un)
bad = 0
for (p, name), us in sorted(where.items()):
    if p not in u["properties"]:
        continue
    quick = set(u["properties"][p]["units"])
    if not quick & set(us):
        print("NOT RUN under %s: %-50s proved only in %s" % (p, name, us)); bad += 1
print("%d tagged regions checked, %d unreachable" % (len(where), bad))
sys.exit(1 if bad else 0)
