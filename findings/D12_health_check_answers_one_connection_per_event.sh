#!/bin/sh
# D12 (C15 "a configured health-check port answers every TCP connection") -- recorded only: C15 is outside this technique
# (DESIGN §7), no check claims it.  The health-check listener is registered edge-triggered (PollOpt::edge) and
# Server::handle_health_check accepts ONE connection per readiness event; connections that arrive together are coalesced by the
# kernel into one edge, so all but one of them stay in the accept backlog unanswered until a later connection produces a new edge.
# (First observed by a sub-agent writing property-preserving refactorings; its loop-until-WouldBlock variant answers 40 of 40.)
# Run:  sh findings/D12_health_check_answers_one_connection_per_event.sh     (needs /repo built: cargo build --offline)
set -e
d=$(mktemp -d)
cat > $d/cfg.yaml <<CFG
interface: 127.0.0.1
port: 18696
seed: a32049da0ffde0ded92ce10a0230d35fe615ec8461c14986baa63fe3b3bac3db
num_workers: 1
health_check_port: 18697
CFG
(cd /repo && cargo build --offline --bin roughenough-server >/dev/null 2>&1)
/repo/target/debug/roughenough-server $d/cfg.yaml > $d/out.txt 2>&1 &
pid=$!
sleep 1
python3 - <<PY
import socket, select, time
N = 40
socks = []
for i in range(N):
    s = socket.socket(); s.setblocking(False)
    try: s.connect(("127.0.0.1", 18697))
    except BlockingIOError: pass
    socks.append(s)
time.sleep(2.0)
answered = 0
for s in socks:
    try:
        if s.recv(4096).startswith(b"HTTP/1.1 200"): answered += 1
    except (BlockingIOError, ConnectionError): pass
print("simultaneous health-check connections: %d, answered within 2 s: %d" % (N, answered))
PY
kill -TERM $pid; wait $pid || true
rm -rf $d
