use vstd::prelude::*;
use vstd::std_specs::iter::IteratorSpec;
verus! {
global size_of usize == 8;

#[verifier::external_type_specification]
#[verifier::external_body]
pub struct ExSocketAddr(std::net::SocketAddr);

#[verifier::external_type_specification]
#[verifier::external_body]
pub struct ExIpAddr(std::net::IpAddr);

pub assume_specification[std::net::SocketAddr::ip](a: &std::net::SocketAddr) -> (r: std::net::IpAddr);

pub struct IoError;
pub struct UdpSocket { pub sent: Ghost<Seq<(Seq<u8>, std::net::SocketAddr)>> }
impl UdpSocket {
    #[verifier::external_body]
    pub fn send_to(&mut self, buf: &[u8], target: &std::net::SocketAddr) -> (r: Result<usize, IoError>)
        ensures final(self).sent@ == old(self).sent@.push((buf@, *target)),
            r matches Ok(n) ==> n <= buf@.len()
    { unimplemented!() }
}

pub trait ServerStats {
    fn add_classic_response(&mut self, addr: &std::net::IpAddr, bytes_sent: usize);
    fn add_failed_send_attempt(&mut self, addr: &std::net::IpAddr);
}

pub struct Grease { pub enabled: bool }
impl Grease {
    #[verifier::external_body]
    pub fn should_add_error(&mut self) -> (r: bool) ensures !old(self).enabled ==> !r, final(self).enabled == old(self).enabled { unimplemented!() }
    #[verifier::external_body]
    pub fn add_errors(&mut self, m: &Vec<u8>) -> (r: Vec<u8>) { unimplemented!() }
}

pub fn enumerate<'a, T>(v: &'a Vec<T>) -> (r: std::vec::IntoIter<(usize, &'a T)>)
    ensures r.decrease() is Some, r.remaining().len() == v@.len(),
        forall|i: int| 0 <= i < v@.len() ==> (#[trigger] r.remaining()[i]).0 == i && *r.remaining()[i].1 == v@[i]
{
    let mut out: Vec<(usize, &T)> = Vec::new();
    let mut i: usize = 0;
    while i < v.len()
        invariant i <= v@.len(), out@.len() == i,
            forall|j: int| 0 <= j < i ==> (#[trigger] out@[j]).0 == j && *out@[j].1 == v@[j]
        decreases v@.len() - i
    {
        out.push((i, &v[i]));
        i += 1;
    }
    out.into_iter()
}

#[verifier::external_body]
pub fn log_eval<T>(t: T) {}

pub struct Responder {
    requests: Vec<(Vec<u8>, std::net::SocketAddr)>,
    grease: Grease,
    cert_bytes: Vec<u8>,
}

impl Responder {
    pub closed spec fn reqs(&self) -> Seq<(Vec<u8>, std::net::SocketAddr)> { self.requests@ }
    pub closed spec fn grease_on(&self) -> bool { self.grease.enabled }

    #[verifier::external_body]
    fn make_response(&self, cert: &[u8], idx: u32, nonce: &Vec<u8>) -> (r: Vec<u8>) { unimplemented!() }

    pub fn is_empty(&self) -> (r: bool) ensures r == (self.reqs().len() == 0) { self.requests.is_empty() }

    pub fn send_responses(&mut self, socket: &mut UdpSocket, stats: &mut Box<dyn ServerStats>)
        requires old(self).reqs().len() <= 255,
            forall|i: int| 0 <= i < old(self).reqs().len() ==> (#[trigger] old(self).reqs()[i]).0@.len() >= 4,
        ensures
            final(socket).sent@.len() == old(socket).sent@.len() + old(self).reqs().len(),
            forall|i: int| 0 <= i < old(self).reqs().len() ==> (#[trigger] final(socket).sent@[old(socket).sent@.len() + i]).1 == old(self).reqs()[i].1,
    {
        if self.is_empty() {
            return;
        }

        for (idx, (nonce, src_addr)) in it: enumerate(&self.requests)
            invariant
                it.seq().len() == old(self).reqs().len(),
                self.reqs() == old(self).reqs(),
                forall|i: int| 0 <= i < it.seq().len() ==> (#[trigger] it.seq()[i]).0 == i && *it.seq()[i].1 == old(self).reqs()[i],
                socket.sent@.len() == old(socket).sent@.len() + it.index(),
                forall|i: int| 0 <= i < it.index() ==> (#[trigger] socket.sent@[old(socket).sent@.len() + i]).1 == old(self).reqs()[i].1,
        {
            let resp_msg = {
                let r = self.make_response(&self.cert_bytes, idx as u32, nonce);
                if self.grease.should_add_error() {
                    self.grease.add_errors(&r)
                } else {
                    r
                }
            };

            let mut bytes_sent: usize = 0;
            let mut successful_send: bool = true;

            match socket.send_to(&resp_msg, src_addr) {
                Ok(num_bytes) => bytes_sent = num_bytes,
                Err(_) => successful_send = false,
            }

            log_eval((bytes_sent, src_addr, &nonce[0..4], idx + 1));

            if successful_send {
                stats.add_classic_response(&src_addr.ip(), bytes_sent);
            } else {
                stats.add_failed_send_attempt(&src_addr.ip());
            }
        }
    }
}
}
fn main() {}
