use vstd::prelude::*;
use std::collections::HashMap;
verus! {
#[derive(Debug, PartialEq, Eq, Hash, Clone, Copy)]
pub enum Tag { SIG, DELE, PUBK }

pub uninterp spec fn sig_ok(pk: Seq<u8>, sig: Seq<u8>, data: Seq<u8>) -> bool;

struct H {
    pub_key: Option<Vec<u8>>,
    cert: HashMap<Tag, Vec<u8>>,
}
struct P { verified: bool }

impl H {
    #[verifier::external_body]
    fn validate_sig(&self, public_key: &[u8], sig: &[u8], data: &[u8]) -> (r: bool)
        ensures r == sig_ok(public_key@, sig@, data@)
    { unimplemented!() }

    fn validate_dele(&self)
        requires self.pub_key is Some, self.cert@.contains_key(Tag::SIG), self.cert@.contains_key(Tag::DELE)
    {
        let pubk = self.pub_key.as_ref().unwrap();
        let sig_value = &self.cert[&Tag::SIG];
        let mut cert_data = Vec::from(&[1u8,2u8][..]);
        cert_data.extend(&self.cert[&Tag::DELE]);

        if self.validate_sig(pubk, sig_value, &cert_data) {
            println!("Valid signature on DELE tag");
        } else {
            println!("INVALID signature on DELE tag, response may not be authentic");
        }
    }
}
}
fn main() {}
