use vstd::prelude::*;
verus! {
fn f(a: &Vec<usize>, b: &Vec<usize>) -> (r: usize)
    requires a.len() == b.len(), forall|i:int| 0 <= i < a.len() ==> a[i] < 100 && b[i] < 100
{
    let mut m: usize = 0;
    for (x, y) in it: a.iter().zip(b.iter())
        invariant m <= 200,
          it.seq().len() == a.len(),
          forall|i:int| 0 <= i < a.len() ==> it.seq()[i] == (&a[i], &b[i]),
    {
        assert(it.index() < it.seq().len());
        assert(*x < 100);
        m = *x + *y;
    }
    m
}
}
fn main() {}
