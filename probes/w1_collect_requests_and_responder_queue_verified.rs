use vstd::prelude::*;
verus! {
global size_of usize == 8;

#[derive(Debug, PartialEq, Eq, Clone, Copy)]
pub enum Version { Google, RfcDraft13 }
pub enum Error { Other }

#[verifier::external_type_specification]
#[verifier::external_body]
pub struct ExSocketAddr(std::net::SocketAddr);
#[verifier::external_type_specification]
#[verifier::external_body]
pub struct ExIpAddr(std::net::IpAddr);
pub assume_specification[std::net::SocketAddr::ip](a: &std::net::SocketAddr) -> (r: std::net::IpAddr);

// ---- io shim ----
pub enum ErrorKind { WouldBlock, Other }
pub struct IoError { pub k: ErrorKind }
impl IoError { pub fn kind(&self) -> (r: ErrorKind) ensures r == self.k { match self.k { ErrorKind::WouldBlock => ErrorKind::WouldBlock, ErrorKind::Other => ErrorKind::Other } } }

/// one received datagram, as the ghost receive-log records it
pub struct Dgram { pub bytes: Seq<u8>, pub from: std::net::SocketAddr }
pub struct UdpSocket { pub rcvd: Ghost<Seq<Dgram>> }
impl UdpSocket {
    #[verifier::external_body]
    pub fn recv_from(&mut self, buf: &mut [u8]) -> (r: Result<(usize, std::net::SocketAddr), IoError>)
        ensures
            final(buf)@.len() == old(buf)@.len(),
            match r {
                Ok((n, a)) => n <= old(buf)@.len() && final(self).rcvd@ == old(self).rcvd@.push(Dgram { bytes: final(buf)@.subrange(0, n as int), from: a }),
                Err(_) => final(self).rcvd@ == old(self).rcvd@,
            }
    { unimplemented!() }
}

// ---- request unit, by contract (proved in q3) ----
pub uninterp spec fn wf_request(v: Version, d: Seq<u8>, srv: Seq<u8>, nonce: Seq<u8>) -> bool;
pub mod request {
    use vstd::prelude::*;
    use super::*;
    #[verifier::external_body]
    pub fn nonce_from_request(buf: &[u8], num_bytes: usize, expected_srv: &[u8]) -> (r: Result<(Vec<u8>, Version), Error>)
        requires num_bytes <= buf@.len(), buf@.len() >= 8
        ensures r matches Ok((nonce, v)) ==> 1024 <= num_bytes <= 1500 && wf_request(v, buf@.subrange(0, num_bytes as int), expected_srv@, nonce@)
    { unimplemented!() }
}

pub uninterp spec fn leafH(d: Seq<u8>) -> Seq<u8>;
pub struct MerkleTree { pub leaves: Ghost<Seq<Seq<u8>>>, pub built: Ghost<bool> }
impl MerkleTree {
    #[verifier::external_body]
    pub fn push_leaf(&mut self, data: &[u8])
        requires !old(self).built@
        ensures final(self).leaves@ == old(self).leaves@.push(leafH(data@)), !final(self).built@
    { unimplemented!() }
    #[verifier::external_body]
    pub fn reset(&mut self) ensures final(self).leaves@ == Seq::<Seq<u8>>::empty(), !final(self).built@ { unimplemented!() }
}

pub open spec fn justified(rcvd: Seq<Dgram>, lo: int, v: Version, srv: Seq<u8>, req: (Vec<u8>, std::net::SocketAddr), leaf: Seq<u8>) -> bool {
    exists|k: int| lo <= k < rcvd.len() && 1024 <= (#[trigger] rcvd[k]).bytes.len() <= 1500
        && wf_request(v, rcvd[k].bytes, srv, req.0@) && rcvd[k].from == req.1
        && (v == Version::RfcDraft13 ==> leaf == leafH(rcvd[k].bytes)) && (v == Version::Google ==> leaf == leafH(req.0@))
}
pub open spec fn all_justified(rcvd: Seq<Dgram>, lo: int, v: Version, srv: Seq<u8>, reqs: Seq<(Vec<u8>, std::net::SocketAddr)>, leaves: Seq<Seq<u8>>) -> bool {
    reqs.len() == leaves.len() && forall|i: int| 0 <= i < reqs.len() ==> justified(rcvd, lo, v, srv, #[trigger] reqs[i], leaves[i])
}

pub struct Responder {
    requests: Vec<(Vec<u8>, std::net::SocketAddr)>,
    merkle: MerkleTree,
}
impl Responder {
    pub closed spec fn reqs(&self) -> Seq<(Vec<u8>, std::net::SocketAddr)> { self.requests@ }
    pub closed spec fn leaves(&self) -> Seq<Seq<u8>> { self.merkle.leaves@ }
    pub closed spec fn tree_built(&self) -> bool { self.merkle.built@ }
    pub open spec fn open_batch(&self) -> bool { !self.tree_built() && self.reqs().len() == self.leaves().len() }

    /// Reset internal state to prepare for a new batch of requests
    pub fn reset(&mut self)
        ensures final(self).open_batch(), final(self).reqs().len() == 0
    {
        self.merkle.reset();
        self.requests.clear();
    }

    /// Add a classic request (hashing the NONC) that needs to be responded to
    pub fn add_classic_request(&mut self, nonce: Vec<u8>, src_addr: std::net::SocketAddr)
        requires old(self).open_batch()
        ensures final(self).open_batch(),
            final(self).reqs() == old(self).reqs().push((nonce, src_addr)),
            final(self).leaves() == old(self).leaves().push(leafH(nonce@)),
    {
        self.merkle.push_leaf(&nonce);
        self.requests.push((nonce, src_addr));
    }

    pub fn add_ietf_request(&mut self, data: &[u8], nonce: Vec<u8>, src_addr: std::net::SocketAddr)
        requires old(self).open_batch()
        ensures final(self).open_batch(),
            final(self).reqs() == old(self).reqs().push((nonce, src_addr)),
            final(self).leaves() == old(self).leaves().push(leafH(data@)),
    {
        self.merkle.push_leaf(data);
        self.requests.push((nonce, src_addr));
    }
}

pub trait ServerStats {
    fn add_ietf_request(&mut self, addr: &std::net::IpAddr);
    fn add_classic_request(&mut self, addr: &std::net::IpAddr);
    fn add_invalid_request(&mut self, addr: &std::net::IpAddr, err: &Error);
}
#[verifier::external_body]
pub fn log_eval<T>(t: T) {}

pub struct Server {
    batch_size: u8,
    socket: UdpSocket,
    responder_ietf: Responder,
    responder_classic: Responder,
    buf: [u8; 65_536],
    srv_value: Vec<u8>,
    stats_recorder: Box<dyn ServerStats>,
}

impl Server {
    pub closed spec fn rcvd(&self) -> Seq<Dgram> { self.socket.rcvd@ }
    pub closed spec fn ietf(&self) -> Responder { self.responder_ietf }
    pub closed spec fn classic(&self) -> Responder { self.responder_classic }
    pub closed spec fn srv(&self) -> Seq<u8> { self.srv_value@ }
    pub closed spec fn bs(&self) -> int { self.batch_size as int }

    // Read and process client requests from socket until socket is empty or 'batch_size' number
    // of requests have been read.
    fn collect_requests(&mut self) -> (r: bool)
        requires old(self).ietf().open_batch(), old(self).classic().open_batch(),
            old(self).ietf().reqs().len() == 0, old(self).classic().reqs().len() == 0,
        ensures
            final(self).ietf().open_batch(), final(self).classic().open_batch(),
            // never more than batch_size datagrams are read, and never more queued than read
            final(self).rcvd().len() <= old(self).rcvd().len() + old(self).bs(),
            final(self).ietf().reqs().len() + final(self).classic().reqs().len() <= final(self).rcvd().len() - old(self).rcvd().len(),
            // every queued request is a well-formed 1024..=1500-byte request of its own protocol, from that sender,
            // received in this call; its Merkle leaf is the whole datagram (IETF) / the nonce (classic)
            all_justified(final(self).rcvd(), old(self).rcvd().len() as int, Version::RfcDraft13, old(self).srv(), final(self).ietf().reqs(), final(self).ietf().leaves()),
            all_justified(final(self).rcvd(), old(self).rcvd().len() as int, Version::Google, old(self).srv(), final(self).classic().reqs(), final(self).classic().leaves()),
    {
        let ghost lo = self.rcvd().len() as int;
        for i in it1: 0..self.batch_size
            invariant
                lo == old(self).rcvd().len(), self.srv() == old(self).srv(), self.bs() == old(self).bs(),
                self.ietf().open_batch(), self.classic().open_batch(),
                self.rcvd().len() <= lo + it1.index(),
                self.ietf().reqs().len() + self.classic().reqs().len() <= self.rcvd().len() - lo,
                all_justified(self.rcvd(), lo, Version::RfcDraft13, self.srv(), self.ietf().reqs(), self.ietf().leaves()),
                all_justified(self.rcvd(), lo, Version::Google, self.srv(), self.classic().reqs(), self.classic().leaves()),
        {
            let ghost s0 = *self;
            match self.socket.recv_from(&mut self.buf) {
                Ok((num_bytes, src_addr)) => {
                    match request::nonce_from_request(&self.buf, num_bytes, &self.srv_value) {
                        // TODO(stuart) cleanup when RFC is ratified
                        Ok((nonce, Version::RfcDraft13)) => {
                            let request_bytes = &self.buf[..num_bytes];
                            self.responder_ietf.add_ietf_request(request_bytes, nonce, src_addr);
                            self.stats_recorder.add_ietf_request(&src_addr.ip());
                        }
                        Ok((nonce, Version::Google)) => {
                            self.responder_classic.add_classic_request(nonce, src_addr);
                            self.stats_recorder.add_classic_request(&src_addr.ip());
                        }
                        Err(e) => {
                            self.stats_recorder.add_invalid_request(&src_addr.ip(), &e);

                            log_eval((
                                e, num_bytes, src_addr, i
                            ));
                        }
                    }
                }
                Err(e) => match e.kind() {
                    ErrorKind::WouldBlock => {
                        return true;
                    }
                    _ => {
                        log_eval((e.kind(), e));
                        return false;
                    }
                },
            };
            proof {
                let k = s0.rcvd().len() as int;
                assert(self.rcvd().len() == k + 1);
                assert forall|j: int| 0 <= j < k implies self.rcvd()[j] == s0.rcvd()[j] by {}
                assert forall|j: int| 0 <= j < s0.ietf().reqs().len() implies
                    justified(self.rcvd(), lo, Version::RfcDraft13, self.srv(), #[trigger] self.ietf().reqs()[j], self.ietf().leaves()[j]) by {
                    assert(justified(s0.rcvd(), lo, Version::RfcDraft13, s0.srv(), s0.ietf().reqs()[j], s0.ietf().leaves()[j]));
                    let w = choose|w: int| lo <= w < s0.rcvd().len() && 1024 <= (#[trigger] s0.rcvd()[w]).bytes.len() <= 1500
                        && wf_request(Version::RfcDraft13, s0.rcvd()[w].bytes, s0.srv(), s0.ietf().reqs()[j].0@) && s0.rcvd()[w].from == s0.ietf().reqs()[j].1
                        && (Version::RfcDraft13 == Version::RfcDraft13 ==> s0.ietf().leaves()[j] == leafH(s0.rcvd()[w].bytes)) && (Version::RfcDraft13 == Version::Google ==> s0.ietf().leaves()[j] == leafH(s0.ietf().reqs()[j].0@));
                    assert(self.rcvd()[w] == s0.rcvd()[w]);
                }
                assert forall|j: int| 0 <= j < s0.classic().reqs().len() implies
                    justified(self.rcvd(), lo, Version::Google, self.srv(), #[trigger] self.classic().reqs()[j], self.classic().leaves()[j]) by {
                    assert(justified(s0.rcvd(), lo, Version::Google, s0.srv(), s0.classic().reqs()[j], s0.classic().leaves()[j]));
                    let w = choose|w: int| lo <= w < s0.rcvd().len() && 1024 <= (#[trigger] s0.rcvd()[w]).bytes.len() <= 1500
                        && wf_request(Version::Google, s0.rcvd()[w].bytes, s0.srv(), s0.classic().reqs()[j].0@) && s0.rcvd()[w].from == s0.classic().reqs()[j].1
                        && (Version::Google == Version::RfcDraft13 ==> s0.classic().leaves()[j] == leafH(s0.rcvd()[w].bytes)) && (Version::Google == Version::Google ==> s0.classic().leaves()[j] == leafH(s0.classic().reqs()[j].0@));
                    assert(self.rcvd()[w] == s0.rcvd()[w]);
                }
                // the newly queued request (if any) is justified by the datagram just received
                if self.ietf().reqs().len() > s0.ietf().reqs().len() {
                    assert(self.rcvd()[k].bytes.len() >= 1024);
                }
                if self.classic().reqs().len() > s0.classic().reqs().len() {
                    assert(self.rcvd()[k].bytes.len() >= 1024);
                }
            }
        }

        false
    }
}
}
fn main() {}
