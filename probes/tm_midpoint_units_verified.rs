use vstd::prelude::*;
verus! {
// ---- std::time shim ----
pub struct SystemTime { pub secs: u64, pub nanos: u32 }
pub struct Duration { pub secs: u64, pub nanos: u32 }
#[derive(Debug)]
pub struct SystemTimeError;
pub const UNIX_EPOCH: SystemTime = SystemTime { secs: 0, nanos: 0 };
impl SystemTime {
    #[verifier::external_body]
    pub fn duration_since(&self, earlier: SystemTime) -> (r: Result<Duration, SystemTimeError>)
        ensures earlier == UNIX_EPOCH ==> (r is Ok && r->Ok_0.secs == self.secs && r->Ok_0.nanos == self.nanos)
    { unimplemented!() }
}
impl Duration {
    pub fn as_secs(&self) -> (r: u64) ensures r == self.secs { self.secs }
    pub fn subsec_nanos(&self) -> (r: u32) ensures r == self.nanos { self.nanos }
}
pub open spec fn wf_time(t: SystemTime) -> bool { t.nanos < 1_000_000_000 }

pub struct OnlineKey { x: u8 }
impl OnlineKey {
    /// Classic protocol, epoch time in microseconds
    fn classic_midp(&self, now: SystemTime) -> (r: u64)
        requires wf_time(now), now.secs < 18_446_744_073_709
        ensures r == now.secs * 1_000_000 + now.nanos / 1000
    {
        let d = now
            .duration_since(UNIX_EPOCH)
            .expect("duration since epoch");
        let secs = d.as_secs() * 1_000_000;
        let nsecs = (d.subsec_nanos() as u64) / 1_000;

        secs + nsecs
    }

    /// RFC protocol, an uint64 count of seconds since the Unix epoch in UTC.
    fn rfc_midp(&self, now: SystemTime) -> (r: u64)
        ensures r == now.secs
    {
        now.duration_since(UNIX_EPOCH).unwrap().as_secs()
    }
}
}
fn main() {}
