use vstd::prelude::*;
verus! {

pub enum Version { Google, RfcDraft13 }
use Version::{Google, RfcDraft13};

pub const TREE_LEAF_TWEAK: &'static [u8] = &[0x00];
pub const TREE_NODE_TWEAK: &'static [u8] = &[0x01];

pub mod digest {
    use vstd::prelude::*;
    pub struct Algorithm { pub id: u8 }
    pub struct Digest { pub v: Vec<u8> }
    pub struct Context { pub data: Vec<u8> }
    pub exec static SHA512: Algorithm = Algorithm { id: 0 };
    impl Algorithm {
        #[verifier::external_body]
        pub fn output_len(&self) -> (r: usize) ensures r == 64 { 64 }
    }
    impl Context {
        #[verifier::external_body]
        pub fn new(a: &'static Algorithm) -> (c: Context) ensures c.data@.len() == 0 { unimplemented!() }
        #[verifier::external_body]
        pub fn update(&mut self, d: &[u8]) ensures final(self).data@ == old(self).data@ + d@ { unimplemented!() }
        #[verifier::external_body]
        pub fn finish(self) -> (d: Digest) ensures d.v@.len() == 64 { unimplemented!() }
    }
    impl Digest {
        pub fn as_ref(&self) -> (r: &[u8]) ensures r@ == self.v@ { self.v.as_slice() }
    }
}

type Data = Vec<u8>;
type Hash = Data;

pub struct MerkleTree {
    levels: Vec<Vec<Data>>,
    algorithm: &'static digest::Algorithm,
    version: Version,
}

impl MerkleTree {
    pub fn push_leaf(&mut self, data: &[u8]) {
        let hash = self.hash_leaf(data);
        self.levels[0].push(hash);
    }

    pub fn get_paths(&self, mut index: usize) -> Vec<u8> {
        let mut paths = Vec::with_capacity(self.levels.len() * self.algorithm.output_len());
        let mut level = 0;

        while !self.levels[level].is_empty() {
            let sibling = if index % 2 == 0 { index + 1 } else { index - 1 };

            paths.extend(self.levels[level][sibling].clone());
            level += 1;
            index /= 2;
        }

        // for PATH to have a depth of >32 levels, we'd have to be processing
        // a batch of >2^32 responses
        assert!(level <= 32, "impossible: PATH depth {} exceeds 32", level);

        paths
    }

    pub fn compute_root(&mut self) -> Hash {
        assert!(
            !self.levels[0].is_empty(),
            "Must have at least one leaf to hash!"
        );

        let mut level = 0;
        let mut node_count = self.levels[0].len();

        while node_count > 1 {
            level += 1;

            if self.levels.len() < level + 1 {
                self.levels.push(vec![]);
            }

            if node_count % 2 != 0 {
                self.levels[level - 1].push(vec![0; self.algorithm.output_len()]);
                node_count += 1;
            }

            node_count /= 2;

            for i in 0..node_count {
                let hash = self.hash_nodes(
                    &self.levels[level - 1][i * 2],
                    &self.levels[level - 1][(i * 2) + 1],
                );
                self.levels[level].push(hash);
            }
        }

        assert_eq!(self.levels[level].len(), 1);
        let result = self.levels[level].pop().unwrap();

        self.finalize_output(result)
    }

    pub fn reset(&mut self) {
        for level in &mut self.levels {
            level.clear();
        }
    }

    pub fn is_empty(&self) -> bool {
        self.levels[0].is_empty()
    }

    fn hash_leaf(&self, leaf: &[u8]) -> Data {
        self.hash(&[TREE_LEAF_TWEAK, leaf])
    }

    fn hash_nodes(&self, first: &[u8], second: &[u8]) -> Data {
        self.hash(&[TREE_NODE_TWEAK, first, second])
    }

    fn hash(&self, to_hash: &[&[u8]]) -> Data {
        let mut ctx = digest::Context::new(self.algorithm);
        for data in to_hash {
            ctx.update(data);
        }
        Data::from(ctx.finish().as_ref())
    }

    pub fn root_from_paths(&self, mut index: usize, data: &[u8], paths: &[u8]) -> Hash {
        let mut hash = self.hash_leaf(data);

        assert_eq!(paths.len() % self.algorithm.output_len(), 0);

        for path in paths.chunks(self.algorithm.output_len()) {
            let mut ctx = digest::Context::new(self.algorithm);
            ctx.update(TREE_NODE_TWEAK);

            if index & 1 == 0 {
                // Left
                ctx.update(&hash);
                ctx.update(path);
            } else {
                // Right
                ctx.update(path);
                ctx.update(&hash);
            }

            hash = Hash::from(ctx.finish().as_ref());
            index >>= 1;
        }

        self.finalize_output(hash)
    }

    #[inline]
    fn finalize_output(&self, data: Hash) -> Hash {
        match self.version {
            RfcDraft13 => data[0..32].into(),
            Google => data,
        }
    }
}
}
fn main() {}
