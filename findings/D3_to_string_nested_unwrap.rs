// D3 / C06: formatting a successfully decoded message panics when a nested field (CERT/DELE/SREP) is not itself a message.
use roughenough::RtMessage;
#[test]
fn display_of_decoded_message_with_bogus_cert_value() {
    // 1 tag, CERT, value = 05 00 00 00 (claims five tags, has none)
    let bytes = [1u8, 0, 0, 0, b'C', b'E', b'R', b'T', 5, 0, 0, 0];
    let msg = RtMessage::from_bytes(&bytes).expect("decodes");
    let s = format!("{}", msg); // must return normally (C06)
    assert!(s.contains("CERT"));
}
