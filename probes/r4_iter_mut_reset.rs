use vstd::prelude::*;
use vstd::std_specs::iter::IteratorSpec;
verus! {
pub struct T { pub levels: Vec<Vec<Vec<u8>>> }
impl T {
    pub fn reset(&mut self)
        ensures final(self).levels@.len() == old(self).levels@.len(),
            forall|k: int| 0 <= k < final(self).levels@.len() ==> (#[trigger] final(self).levels@[k])@.len() == 0
    {
        for level in it: self.levels.iter_mut()
            invariant forall|j: int| 0 <= j < it.index() ==> (#[trigger] final(it.seq()[j]))@.len() == 0,
        {
            level.clear();
        }
    }
}
}
fn main() {}
