use vstd::prelude::*;
use vstd::std_specs::cmp::*;
use core::cmp::Ordering;
verus! {
#[derive(Debug, PartialEq, Eq, PartialOrd, Clone, Copy)]
pub enum Tag { SIG, VER, NONC, PAD }
pub open spec fn tag_rank(t: Tag) -> int {
    match t { Tag::SIG => 0, Tag::VER => 1, Tag::NONC => 2, Tag::PAD => 3 }
}
pub open spec fn ord_of(a: int, b: int) -> Ordering {
    if a < b { Ordering::Less } else if a == b { Ordering::Equal } else { Ordering::Greater }
}
pub broadcast axiom fn tag_derive_axiom(a: Tag, b: Tag)
    ensures
        <Tag as PartialEqSpec<Tag>>::obeys_eq_spec(),
        #[trigger] a.eq_spec(&b) == (a == b),
        <Tag as PartialOrdSpec<Tag>>::obeys_partial_cmp_spec(),
        #[trigger] a.partial_cmp_spec(&b) == Some(ord_of(tag_rank(a), tag_rank(b)));

fn cmp(a: Tag, b: Tag) -> (r: bool)
    ensures r == (tag_rank(a) <= tag_rank(b))
{
    proof { tag_derive_axiom(a, b); }
    a <= b
}
fn eqq(a: Tag, b: Tag) -> (r: bool)
    ensures r == (a == b)
{
    proof { tag_derive_axiom(a, b); }
    a == b
}
}
fn main() {}
