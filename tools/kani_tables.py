#!/usr/bin/env python3
"""Kani side: finite-domain tables of the REAL crate (Tag, Version, byte constants).

The harness module (tools/kani_tables_gen.rs, generated from spec/tables.json by gen_tables.py) is appended to
src/lib.rs of a scratch copy of /repo's working tree; nothing else is changed.  Every harness is loop-free over
a finite symbolic domain (all 18 tags, all 2^32 four-byte words), so SUCCESS is a complete proof of the table
contract that the Verus units assume for Tag::wire_value / Tag::from_wire / Version::* / the byte constants.
"""
import fcntl
import hashlib
import json
import os
import re
import shutil
import subprocess
import sys
import time

VERIF = os.path.dirname(os.path.dirname(os.path.abspath(__file__)))
# one scratch copy per checkout of /verif (two checkouts running at once must not share it; runs inside one checkout are
# serialised by the lock below)
SCRATCH = os.environ.get("VERIF_KANI_SCRATCH", "/tmp/verif-kani-scratch-" + hashlib.sha1(VERIF.encode()).hexdigest()[:8])
TARGET = os.environ.get("VERIF_KANI_CACHE", os.path.join(VERIF, ".cache", "kani-target"))

WHAT = {
    "tag_wire_value_table": "Tag::wire_value(t) == table[t] and Tag::is_nested(t) == nested[t] for all 18 tags",
    "tag_enum_matches_table": "Tag has exactly the table's variants in the table's order; derived <,<=,== compare declaration indices",
    "tag_from_wire_table": "for ALL 2^32 four-byte words w: Tag::from_wire(w) == Ok(t) <=> w == table[t]",
    "version_table_google": "Version::Google wire bytes / delegation context / response context equal the protocol's",
    "version_table_rfcdraft13": "Version::RfcDraft13 wire bytes / delegation context / response context equal the protocol's",
    "supported_versions_table": "Version::supported_versions_wire() == wire(Google) ++ wire(RfcDraft13)",
    "get_supported_version_first_four": "draft-13 among the first four VER words ==> request::get_supported_version == Some(RfcDraft13) ==> draft-13 somewhere in VER, for every list of 0..=6 words (all 2^32 values per word)",
    "const_tables": "REQUEST_FRAMING_BYTES, TREE_*_TWEAK, HASH_PREFIX_SRV, MIN/MAX_REQUEST_LENGTH equal the protocol's",
}


def sync_scratch(repo):
    os.makedirs(SCRATCH, exist_ok=True)
    # content-based sync: a file is rewritten (new mtime) exactly when its bytes differ, so cargo's
    # mtime fingerprints can never mistake changed source for fresh
    subprocess.run(["rsync", "-r", "--checksum", "--delete", "--exclude", "target", "--exclude", ".git",
                    "--exclude", "/src/lib.rs", "--exclude", "/src/request.rs", repo.rstrip("/") + "/", SCRATCH + "/"], check=True)
    import gen_tables
    gen_tables.main()
    lib = open(os.path.join(repo, "src/lib.rs")).read() + "\n" + open(os.path.join(VERIF, "tools/kani_tables_gen.rs")).read()
    dst = os.path.join(SCRATCH, "src/lib.rs")
    if not os.path.exists(dst) or open(dst).read() != lib:
        open(dst, "w").write(lib)
    req = open(os.path.join(repo, "src/request.rs")).read() + "\n" + open(os.path.join(VERIF, "tools/kani_request_gen.rs")).read()
    dst = os.path.join(SCRATCH, "src/request.rs")
    if not os.path.exists(dst) or open(dst).read() != req:
        open(dst, "w").write(req)


def parse(out):
    res = {}
    cur = None
    for ln in out.splitlines():
        m = re.match(r"Checking harness (\S+?)\.\.\.", ln)
        if m:
            cur = m.group(1).split("::")[-1]
            res[cur] = {"name": cur, "status": "UNKNOWN", "checks": 0, "failed": 0, "failed_desc": [], "covers": None}
            continue
        if cur is None:
            continue
        m = re.search(r"\*\* (\d+) of (\d+) failed", ln)
        if m:
            res[cur]["failed"] = int(m.group(1))
            res[cur]["checks"] = int(m.group(2))
        m = re.search(r"\*\* (\d+) of (\d+) cover properties satisfied", ln)
        if m:
            res[cur]["covers"] = [int(m.group(1)), int(m.group(2))]
        m = re.match(r"VERIFICATION:- (\w+)", ln)
        if m:
            res[cur]["status"] = m.group(1)
        m = re.match(r"Verification Time: ([\d.]+)s", ln)
        if m:
            res[cur]["wall_s"] = float(m.group(1))
        if ln.startswith("Failed Checks:"):
            res[cur]["failed_desc"].append(ln[len("Failed Checks:"):].strip())
    return res


def native_replay(h, vals, env):
    """replays the Kani counterexample against the real crate with an ordinary `cargo test` in the scratch copy"""
    import gen_tables
    body = gen_tables.native_replay_source(h, vals)
    if body is None:
        return {"ran": False, "reason": "no native twin for this harness"}
    os.makedirs(os.path.join(SCRATCH, "tests"), exist_ok=True)
    open(os.path.join(SCRATCH, "tests", "verif_replay.rs"), "w").write(body)
    env2 = dict(env, CARGO_TARGET_DIR=os.path.join(os.path.dirname(TARGET), "replay-target"))
    q = subprocess.run(["cargo", "test", "--offline", "--test", "verif_replay"], cwd=SCRATCH, capture_output=True, text=True, env=env2, timeout=3600)
    out = (q.stdout + q.stderr)
    os.remove(os.path.join(SCRATCH, "tests", "verif_replay.rs"))
    return {"ran": True, "reproduced_on_real_code": q.returncode != 0 and "VERIF-REPLAY" in out,
            "cmd": "cargo test --offline --test verif_replay", "source": body, "output_tail": out[-1500:]}


def run(repo, harnesses, tier, workroot):
    t0 = time.time()
    os.makedirs(os.path.dirname(TARGET), exist_ok=True)
    lock = open(os.path.join(os.path.dirname(TARGET), "kani.lock"), "w")
    fcntl.flock(lock, fcntl.LOCK_EX)
    try:
        sync_scratch(repo)
        env = dict(os.environ, CARGO_NET_OFFLINE="true", CARGO_TARGET_DIR=TARGET)
        cmd = ["cargo", "kani", "-Z", "function-contracts", "-Z", "stubbing"]
        for h in harnesses:
            cmd += ["--harness", h]
        p = subprocess.run(cmd, cwd=SCRATCH, capture_output=True, text=True, env=env, timeout=3600)
        out = p.stdout + "\n" + p.stderr
        res = parse(out)
        hs = []
        for h in harnesses:
            r = res.get(h)
            if r is None:
                tail = out[-3000:]
                hs.append({"name": h, "status": "NOT-RUN", "checks": 0, "what": WHAT.get(h), "detail": tail, "complete": True})
                continue
            r["what"] = WHAT.get(h)
            r["complete"] = True
            r["solver"] = "cadical (CBMC default)"
            if r["covers"] and r["covers"][0] < r["covers"][1]:
                r["status"] = "VACUOUS-COVER-UNSATISFIED"
            if r["status"] == "FAILED":
                # ask for the counterexample
                q = subprocess.run(["cargo", "kani", "-Z", "function-contracts", "-Z", "stubbing", "-Z", "concrete-playback",
                                    "--concrete-playback=print", "--harness", h], cwd=SCRATCH, capture_output=True, text=True, env=env, timeout=3600)
                qo = q.stdout + q.stderr
                blocks = re.findall(r"```(.*?)```", qo, re.S)
                blocks = [b for b in blocks if "Check for `assertion`" in b] or blocks
                r["counterexample"] = (blocks[0].strip() if blocks else None)
                r["detail"] = "; ".join(r["failed_desc"])[:2000]
                vals = []
                if blocks:
                    for grp in re.findall(r"vec!\[([0-9, ]+)\]", blocks[0]):
                        vals += [int(x) for x in grp.replace(" ", "").split(",") if x != ""]
                r["counterexample_bytes"] = vals
                r["native_replay"] = native_replay(h, vals, env)
            hs.append(r)
        return {"cmd": "cd <scratch copy of /repo + tools/kani_tables_gen.rs> && " + " ".join(cmd), "harnesses": hs,
                "wall_s": round(time.time() - t0, 1),
                "trusted": ["Kani/CBMC: rustc MIR -> goto translation and the SAT back end"],
                "note": "harness source generated from spec/tables.json (same table as the Verus-side spec functions)"}
    finally:
        # remove the scratch copy BEFORE releasing the lock (the next holder starts by syncing into it)
        if os.environ.get("VERIF_KANI_KEEP_SCRATCH") != "1":
            shutil.rmtree(SCRATCH, ignore_errors=True)
        fcntl.flock(lock, fcntl.LOCK_UN)
        lock.close()


if __name__ == "__main__":
    sys.path.insert(0, os.path.dirname(os.path.abspath(__file__)))
    r = run(sys.argv[1] if len(sys.argv) > 1 else "/repo", list(WHAT.keys()), "quick", os.path.join(VERIF, "work"))
    print(json.dumps(r, indent=1))
