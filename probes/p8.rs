use vstd::prelude::*;
verus! {
pub struct LittleEndian;
pub struct IoError;
pub trait ReadBytesExt {
    fn read_u64<T>(&mut self) -> Result<u64, IoError>;
}
impl ReadBytesExt for &[u8] {
    #[verifier::external_body]
    fn read_u64<T>(&mut self) -> (r: Result<u64, IoError>)
    { unimplemented!() }
}

fn chunks_shim<'a>(s: &'a [u8], n: usize) -> (r: Vec<&'a [u8]>)
    requires n > 0
{
    let mut v: Vec<&[u8]> = Vec::new();
    let mut i: usize = 0;
    while i < s.len()
        invariant i <= s.len(), n > 0
        decreases s.len() - i
    {
        let e = if s.len() - i < n { s.len() } else { i + n };
        v.push(&s[i..e]);
        i = e;
    }
    v
}

fn f(v: Vec<u8>, t: Vec<u32>) -> u64 {
    let x = v.as_slice().read_u64::<LittleEndian>();
    let mut acc: u64 = 0;
    for path in chunks_shim(v.as_slice(), 4) {
        if path.len() > 0 { acc = path[0] as u64; }
    }
    for (a, b) in t.into_iter().zip(chunks_shim(v.as_slice(), 4)) {
        acc = a as u64;
    }
    let mut radi = [0u8; 4];
    acc
}
}
fn main() {}
