#![feature(print_internals)]
use vstd::prelude::*;
use std::collections::HashMap;
use vstd::std_specs::cmp::PartialEqSpec;
verus! {
global size_of usize == 8;
#[derive(Debug, PartialEq, Eq, Hash, Clone, Copy)]
pub enum Tag { SIG, NONC, DELE, PATH, RADI, PUBK, MIDP, SREP, MINT, ROOT, CERT, MAXT, INDX }
#[derive(Debug, PartialEq, Eq, Clone, Copy)]
pub enum Version { Google, RfcDraft13 }

pub uninterp spec fn ed_verify(pk: Seq<u8>, data: Seq<u8>, sig: Seq<u8>) -> bool;
pub uninterp spec fn dele_prefix(v: Version) -> Seq<u8>;
pub uninterp spec fn sign_prefix(v: Version) -> Seq<u8>;
pub uninterp spec fn u64_le(s: Seq<u8>) -> int;
pub uninterp spec fn u32_le(s: Seq<u8>) -> int;
pub uninterp spec fn spec_fold(i: int, h: Seq<u8>, p: Seq<u8>) -> Seq<u8>;
pub uninterp spec fn leafH(d: Seq<u8>) -> Seq<u8>;
pub uninterp spec fn fin(v: Version, h: Seq<u8>) -> Seq<u8>;
pub uninterp spec fn decode_map(b: Seq<u8>) -> Map<Tag, Seq<u8>>;   // ref_decode as a map, from the codec unit
pub uninterp spec fn ref_accepts(b: Seq<u8>) -> bool;

impl Version {
    #[verifier::external_body] pub fn dele_prefix(&self) -> (r: &'static [u8]) ensures r@ == dele_prefix(*self) { unimplemented!() }
    #[verifier::external_body] pub fn sign_prefix(&self) -> (r: &'static [u8]) ensures r@ == sign_prefix(*self) { unimplemented!() }
}

pub assume_specification [std::io::_print] (_0: std::fmt::Arguments<'_>);
#[derive(Debug)]
pub struct IoError;
pub struct LittleEndian;
pub trait ReadBytesExt { fn read_u64<T>(&mut self) -> Result<u64, IoError>; fn read_u32<T>(&mut self) -> Result<u32, IoError>; }
impl ReadBytesExt for &[u8] {
    #[verifier::external_body]
    fn read_u64<T>(&mut self) -> (r: Result<u64, IoError>)
        ensures match r { Ok(v) => old(self)@.len() >= 8 && v as int == u64_le(old(self)@), Err(_) => old(self)@.len() < 8 }
    { unimplemented!() }
    #[verifier::external_body]
    fn read_u32<T>(&mut self) -> (r: Result<u32, IoError>)
        ensures match r { Ok(v) => old(self)@.len() >= 4 && v as int == u32_le(old(self)@), Err(_) => old(self)@.len() < 4 }
    { unimplemented!() }
}
// ---- R6 shims: abort is a legal non-return in the client ----
#[verifier::external_body] pub fn abort() -> ! { std::process::abort() }
#[verifier::external_body]
pub fn map_index<'a>(m: &'a HashMap<Tag, Vec<u8>>, k: &Tag) -> (r: &'a Vec<u8>) ensures m@.contains_key(*k), *r == m@[*k] { &m[k] }
pub trait OrAbort<T> { fn unwrap_or_abort(self) -> T; }
impl<T, E> OrAbort<T> for Result<T, E> {
    #[verifier::external_body] fn unwrap_or_abort(self) -> (r: T) ensures self is Ok, r == self->Ok_0 { match self { Ok(v) => v, Err(_) => std::process::abort() } }
}
impl<T> OrAbort<T> for Option<T> {
    #[verifier::external_body] fn unwrap_or_abort(self) -> (r: T) ensures self is Some, r == self->Some_0 { match self { Some(v) => v, None => std::process::abort() } }
}
#[verifier::external_body]
pub fn extend_bytes(v: &mut Vec<u8>, e: &Vec<u8>) ensures final(v)@ == old(v)@ + e@ { v.extend(e) }
#[verifier::external_body]
pub fn vec_from_static(s: &'static [u8]) -> (r: Vec<u8>) ensures r@ == s@ { Vec::from(s) }
#[verifier::external_body]
pub fn vec_eq(a: &Vec<u8>, b: &Vec<u8>) -> (r: bool) ensures r == (a@ == b@) { a == b }

// ---- library units by contract ----
pub struct RtMessage { pub b: Ghost<Seq<u8>> }
pub enum Error { Other }
impl RtMessage {
    #[verifier::external_body]
    pub fn from_bytes(bytes: &[u8]) -> (r: Result<RtMessage, Error>) ensures r matches Ok(m) ==> ref_accepts(bytes@) && m.b@ == bytes@ { unimplemented!() }
    #[verifier::external_body]
    pub fn into_hash_map(self) -> (r: HashMap<Tag, Vec<u8>>)
        ensures forall|t: Tag| #![trigger r@.contains_key(t)] r@.contains_key(t) == decode_map(self.b@).contains_key(t)
            && (r@.contains_key(t) ==> r@[t]@ == decode_map(self.b@)[t])
    { unimplemented!() }
}
pub struct MerkleTree { pub v: Version }
impl MerkleTree {
    #[verifier::external_body] pub fn new(v: Version) -> (r: MerkleTree) ensures r.v == v { unimplemented!() }
    #[verifier::external_body]
    pub fn root_from_paths(&self, index: usize, data: &[u8], paths: &[u8]) -> (r: Vec<u8>)
        ensures paths@.len() % 64 == 0, r@ == fin(self.v, spec_fold(index as int, leafH(data@), paths@))   // aborts (assert_eq) otherwise
    { unimplemented!() }
}
pub struct MsgVerifier { pub pk: Ghost<Seq<u8>>, pub buf: Ghost<Seq<u8>> }
impl MsgVerifier {
    #[verifier::external_body] pub fn new(pubkey: &[u8]) -> (r: MsgVerifier) ensures pubkey@.len() == 32, r.pk@ == pubkey@, r.buf@ == Seq::<u8>::empty() { unimplemented!() }
    #[verifier::external_body] pub fn update(&mut self, data: &[u8]) ensures final(self).buf@ == old(self).buf@ + data@, final(self).pk@ == old(self).pk@ { unimplemented!() }
    #[verifier::external_body] pub fn verify(&self, sig: &[u8]) -> (r: bool) ensures sig@.len() == 64, r == ed_verify(self.pk@, self.buf@, sig@) { unimplemented!() }
}
pub broadcast proof fn seq_empty_add(s: Seq<u8>) ensures #[trigger] (Seq::<u8>::empty() + s) == s { assert(Seq::<u8>::empty() + s =~= s); }

type Nonce = Vec<u8>;
struct ResponseHandler {
    pub_key: Option<Vec<u8>>,
    msg: HashMap<Tag, Vec<u8>>,
    srep: HashMap<Tag, Vec<u8>>,
    cert: HashMap<Tag, Vec<u8>>,
    dele: HashMap<Tag, Vec<u8>>,
    nonce: Nonce,
    version: Version,
}
struct ParsedResponse { verified: bool, midpoint: u64, radius: u32 }
impl ParsedResponse {
    pub closed spec fn v(&self) -> bool { self.verified }
    pub closed spec fn m(&self) -> u64 { self.midpoint }
}
impl ResponseHandler {
    pub closed spec fn has_key(&self) -> bool { self.pub_key is Some }
    pub closed spec fn midp_field(&self) -> Option<Seq<u8>> { if self.srep@.contains_key(Tag::MIDP) { Some(self.srep@[Tag::MIDP]@) } else { None } }
}

/// the statement of C01, as a predicate over the handler's fields
pub closed spec fn authentic(h: &ResponseHandler) -> bool {
    &&& h.pub_key is Some
    &&& h.cert@.contains_key(Tag::SIG) && h.cert@.contains_key(Tag::DELE) && h.dele@.contains_key(Tag::PUBK)
    &&& h.msg@.contains_key(Tag::SIG) && h.msg@.contains_key(Tag::SREP)
    &&& ed_verify(h.pub_key.unwrap()@, dele_prefix(h.version) + h.cert@[Tag::DELE]@, h.cert@[Tag::SIG]@)
    &&& ed_verify(h.dele@[Tag::PUBK]@, sign_prefix(h.version) + h.msg@[Tag::SREP]@, h.msg@[Tag::SIG]@)
}
pub closed spec fn bound_to_request(h: &ResponseHandler, midpoint: u64) -> bool {
    &&& h.dele@.contains_key(Tag::MINT) && h.dele@.contains_key(Tag::MAXT)
    &&& u64_le(h.dele@[Tag::MINT]@) <= midpoint <= u64_le(h.dele@[Tag::MAXT]@)
    &&& h.msg@.contains_key(Tag::INDX) && h.msg@.contains_key(Tag::PATH) && h.msg@.contains_key(Tag::SREP)
    &&& decode_map(h.msg@[Tag::SREP]@).contains_key(Tag::ROOT)
    &&& fin(h.version, spec_fold(u32_le(h.msg@[Tag::INDX]@), leafH(h.nonce@), h.msg@[Tag::PATH]@)) == decode_map(h.msg@[Tag::SREP]@)[Tag::ROOT]
}

impl ResponseHandler {
    pub fn extract_time(&self) -> (r: ParsedResponse)
        ensures
            r.v() == self.has_key(),
            r.v() ==> authentic(self),
            bound_to_request(self, r.m()),
            self.midp_field() matches Some(b) && r.m() as int == u64_le(b),
    {
        let midpoint = map_index(&self.srep, &Tag::MIDP)
            .as_slice()
            .read_u64::<LittleEndian>()
            .unwrap_or_abort();
        let radius = map_index(&self.srep, &Tag::RADI)
            .as_slice()
            .read_u32::<LittleEndian>()
            .unwrap_or_abort();

        self.validate_merkle();
        self.validate_midpoint(midpoint);

        let verified = if self.pub_key.is_some() {
            self.validate_dele();
            self.validate_srep();
            true
        } else {
            false
        };

        ParsedResponse {
            verified,
            midpoint,
            radius,
        }
    }

    fn validate_dele(&self)
        requires self.pub_key is Some
        ensures self.cert@.contains_key(Tag::SIG) && self.cert@.contains_key(Tag::DELE)
            && ed_verify(self.pub_key.unwrap()@, dele_prefix(self.version) + self.cert@[Tag::DELE]@, self.cert@[Tag::SIG]@)
    {
        let pubk = self.pub_key.as_ref().unwrap_or_abort();
        let sig_value = map_index(&self.cert, &Tag::SIG);
        let mut cert_data = vec_from_static(self.version.dele_prefix());
        extend_bytes(&mut cert_data, map_index(&self.cert, &Tag::DELE));

        if self.validate_sig(pubk, sig_value, &cert_data) {
            println!("Valid signature on DELE tag");
        } else {
            println!("INVALID signature on DELE tag, response may not be authentic");
        }
    }

    fn validate_srep(&self)
        ensures self.dele@.contains_key(Tag::PUBK) && self.msg@.contains_key(Tag::SIG) && self.msg@.contains_key(Tag::SREP)
            && ed_verify(self.dele@[Tag::PUBK]@, sign_prefix(self.version) + self.msg@[Tag::SREP]@, self.msg@[Tag::SIG]@)
    {
        let pubk = map_index(&self.dele, &Tag::PUBK);
        let sig_value = map_index(&self.msg, &Tag::SIG);
        let mut srep_data = vec_from_static(self.version.sign_prefix());
        extend_bytes(&mut srep_data, map_index(&self.msg, &Tag::SREP));

        if self.validate_sig(pubk, sig_value, &srep_data) {
            println!("Valid signature on SREP tag");
        } else {
            println!("INVALID signature on SREP tag, response may not be authentic");
        }
    }

    fn validate_merkle(&self)
        ensures
            self.msg@.contains_key(Tag::INDX) && self.msg@.contains_key(Tag::PATH) && self.msg@.contains_key(Tag::SREP),
            decode_map(self.msg@[Tag::SREP]@).contains_key(Tag::ROOT),
            fin(self.version, spec_fold(u32_le(self.msg@[Tag::INDX]@), leafH(self.nonce@), self.msg@[Tag::PATH]@)) == decode_map(self.msg@[Tag::SREP]@)[Tag::ROOT],
    {
        let srep = RtMessage::from_bytes(map_index(&self.msg, &Tag::SREP))
            .unwrap_or_abort()
            .into_hash_map();
        let index = map_index(&self.msg, &Tag::INDX)
            .as_slice()
            .read_u32::<LittleEndian>()
            .unwrap_or_abort();
        let paths = map_index(&self.msg, &Tag::PATH);

        let hash = MerkleTree::new(self.version)
            .root_from_paths(index as usize, &self.nonce, paths);

        if !(vec_eq(&hash, map_index(&srep, &Tag::ROOT))) { abort() }
    }

    fn validate_midpoint(&self, midpoint: u64)
        ensures self.dele@.contains_key(Tag::MINT) && self.dele@.contains_key(Tag::MAXT)
            && u64_le(self.dele@[Tag::MINT]@) <= midpoint <= u64_le(self.dele@[Tag::MAXT]@)
    {
        let mint = map_index(&self.dele, &Tag::MINT)
            .as_slice()
            .read_u64::<LittleEndian>()
            .unwrap_or_abort();
        let maxt = map_index(&self.dele, &Tag::MAXT)
            .as_slice()
            .read_u64::<LittleEndian>()
            .unwrap_or_abort();

        if !(midpoint >= mint) { abort() }
        if !(midpoint <= maxt) { abort() }
    }

    fn validate_sig(&self, public_key: &[u8], sig: &[u8], data: &[u8]) -> (r: bool)
        ensures r == ed_verify(public_key@, data@, sig@)
    {
        broadcast use seq_empty_add;
        let mut verifier = MsgVerifier::new(public_key);
        verifier.update(data);
        verifier.verify(sig)
    }
}
}
fn main() {}
