mod verif_kani {
    use super::*;

    fn any_tag() -> Tag {
        let i: u8 = kani::any();
        kani::assume(i < 18);
        const ALL: [Tag; 18] = [Tag::SIG, Tag::VER, Tag::SRV, Tag::NONC, Tag::DELE, Tag::PATH, Tag::RADI, Tag::PUBK, Tag::MIDP, Tag::SREP, Tag::VERS, Tag::MINT, Tag::ROOT, Tag::CERT, Tag::MAXT, Tag::INDX, Tag::ZZZZ, Tag::PAD];
        ALL[i as usize]
    }

    fn le(w: &[u8]) -> u32 { u32::from_le_bytes([w[0], w[1], w[2], w[3]]) }

    #[kani::proof]
    fn tag_order_is_wire_order() {
        let a = any_tag();
        let b = any_tag();
        assert_eq!(a < b, le(a.wire_value()) < le(b.wire_value()));
        assert_eq!(a == b, le(a.wire_value()) == le(b.wire_value()));
    }

    #[kani::proof]
    fn from_wire_inverse() {
        let w: [u8; 4] = kani::any();
        match Tag::from_wire(&w) {
            Ok(t) => assert!(t.wire_value() == &w[..]),
            Err(_) => { let t = any_tag(); assert!(t.wire_value() != &w[..]); }
        }
    }
}
