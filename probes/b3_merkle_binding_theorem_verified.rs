use vstd::prelude::*;
verus! {
// ---------- hash idealisation ----------
pub uninterp spec fn H512(x: Seq<u8>) -> Seq<u8>;
pub broadcast axiom fn h512_len(x: Seq<u8>) ensures #[trigger] H512(x).len() == 64;
pub open spec fn zero_node() -> Seq<u8> { Seq::new(64, |i: int| 0u8) }
// Collision/preimage resistance is a HYPOTHESIS of the binding theorems, never an axiom: an injective
// function into 64-byte strings cannot exist, so assuming it globally would be inconsistent. Every theorem
// below reads "binding holds, or SHA-512 has a collision / a preimage of the zero block".
pub open spec fn cr() -> bool {
    &&& forall|x: Seq<u8>, y: Seq<u8>| #![trigger H512(x), H512(y)] H512(x) == H512(y) ==> x == y
    &&& forall|x: Seq<u8>| #[trigger] H512(x) != zero_node()
}
pub proof fn h512_injective(x: Seq<u8>, y: Seq<u8>) requires cr(), H512(x) == H512(y) ensures x == y {}
pub proof fn h512_nonzero(x: Seq<u8>) requires cr() ensures H512(x) != zero_node() {}

pub open spec fn leafH(d: Seq<u8>) -> Seq<u8> { H512(seq![0u8] + d) }
pub open spec fn nodeH(l: Seq<u8>, r: Seq<u8>) -> Seq<u8> { H512(seq![1u8] + l + r) }

pub proof fn node_injective(a: Seq<u8>, b: Seq<u8>, c: Seq<u8>, d: Seq<u8>)
    requires cr(), nodeH(a, b) == nodeH(c, d), a.len() == 64, b.len() == 64, c.len() == 64, d.len() == 64
    ensures a == c, b == d
{
    let x = seq![1u8] + a + b;
    let y = seq![1u8] + c + d;
    h512_injective(x, y);
    assert(a =~= x.subrange(1, 65));
    assert(c =~= y.subrange(1, 65));
    assert(b =~= x.subrange(65, 129));
    assert(d =~= y.subrange(65, 129));
}
pub proof fn node_not_leaf(a: Seq<u8>, b: Seq<u8>, d: Seq<u8>)
    requires cr()
    ensures nodeH(a, b) != leafH(d)
{
    if nodeH(a, b) == leafH(d) {
        h512_injective(seq![1u8] + a + b, seq![0u8] + d);
        assert((seq![1u8] + a + b)[0] == 1u8);
        assert((seq![0u8] + d)[0] == 0u8);
    }
}
pub proof fn leaf_injective(d1: Seq<u8>, d2: Seq<u8>)
    requires cr(), leafH(d1) == leafH(d2)
    ensures d1 == d2
{
    h512_injective(seq![0u8] + d1, seq![0u8] + d2);
    assert(d1 =~= (seq![0u8] + d1).subrange(1, 1 + d1.len() as int));
    assert(d2 =~= (seq![0u8] + d2).subrange(1, 1 + d2.len() as int));
}

// ---------- tree spec (as in the merkle unit) ----------
pub open spec fn pad(l: Seq<Seq<u8>>) -> Seq<Seq<u8>> { if l.len() % 2 == 1 { l.push(zero_node()) } else { l } }
pub open spec fn next_level(l: Seq<Seq<u8>>) -> Seq<Seq<u8>> {
    Seq::new((pad(l).len() / 2) as nat, |i: int| nodeH(pad(l)[2 * i], pad(l)[2 * i + 1]))
}
pub open spec fn spec_root(l: Seq<Seq<u8>>) -> Seq<u8> decreases l.len()
{ if l.len() <= 1 { l[0] } else { spec_root(next_level(l)) } }
pub open spec fn sib(i: int) -> int { if i % 2 == 0 { i + 1 } else { i - 1 } }
pub open spec fn spec_path(l: Seq<Seq<u8>>, i: int) -> Seq<u8> decreases l.len()
{ if l.len() <= 1 { Seq::empty() } else { pad(l)[sib(i)] + spec_path(next_level(l), i / 2) } }
pub open spec fn spec_fold(i: int, h: Seq<u8>, p: Seq<u8>) -> Seq<u8> decreases p.len()
{
    if p.len() < 64 { h } else {
        let s = p.subrange(0, 64);
        let nh = if i % 2 == 0 { nodeH(h, s) } else { nodeH(s, h) };
        spec_fold(i / 2, nh, p.subrange(64, p.len() as int))
    }
}
pub open spec fn all64(l: Seq<Seq<u8>>) -> bool { forall|i: int| 0 <= i < l.len() ==> (#[trigger] l[i]).len() == 64 }
// every entry is a leaf hash (level 0 of an honest tree)
pub open spec fn all_leaf(l: Seq<Seq<u8>>) -> bool { forall|i: int| 0 <= i < l.len() ==> exists|d: Seq<u8>| (#[trigger] l[i]) == leafH(d) }
// every entry is a node hash or the zero pad (levels >= 1)
pub open spec fn is_node(x: Seq<u8>) -> bool { exists|a: Seq<u8>, b: Seq<u8>| x == nodeH(a, b) }
pub open spec fn all_node(l: Seq<Seq<u8>>) -> bool { forall|i: int| 0 <= i < l.len() ==> is_node(#[trigger] l[i]) }

// ---------- binding, same-length case, by induction on the tree ----------
// If folding (j, h, p) over a tree with level-0 = l gives spec_root(l), and |p| has exactly depth(l) elements,
// and j is in range, then h is the entry at j and p is the honest path.
pub open spec fn depth(l: Seq<Seq<u8>>) -> nat decreases l.len()
{ if l.len() <= 1 { 0 } else { 1 + depth(next_level(l)) } }

pub proof fn lemma_next_props(l: Seq<Seq<u8>>)
    requires all64(l), l.len() >= 2
    ensures all64(next_level(l)), all64(pad(l)), all_node(next_level(l)), next_level(l).len() >= 1, next_level(l).len() < l.len()
{
    broadcast use h512_len;
    let nl = next_level(l);
    assert forall|i: int| 0 <= i < nl.len() implies is_node(#[trigger] nl[i]) by {
        assert(nl[i] == nodeH(pad(l)[2 * i], pad(l)[2 * i + 1]));
    }
}

// generic "real entries are not zero" predicate: leaves or nodes are hashes
pub open spec fn all_hash(l: Seq<Seq<u8>>) -> bool { forall|i: int| 0 <= i < l.len() ==> exists|x: Seq<u8>| (#[trigger] l[i]) == H512(x) }

pub proof fn lemma_bind_same_len(l: Seq<Seq<u8>>, j: int, h: Seq<u8>, p: Seq<u8>)
    requires cr(),
        l.len() >= 1, all64(l), all_hash(l), 0 <= j < l.len(), h.len() == 64,
        p.len() == 64 * depth(l),
        spec_fold(j, h, p) == spec_root(l),
    ensures h == l[j], p == spec_path(l, j)
    decreases l.len()
{
    broadcast use h512_len;
    if l.len() <= 1 {
        assert(p.len() == 0);
        assert(p =~= Seq::<u8>::empty());
    } else {
        lemma_next_props(l);
        let P = pad(l);
        let nl = next_level(l);
        let s = p.subrange(0, 64);
        let rest = p.subrange(64, p.len() as int);
        let nh = if j % 2 == 0 { nodeH(h, s) } else { nodeH(s, h) };
        assert(spec_fold(j, h, p) == spec_fold(j / 2, nh, rest));
        assert(rest.len() == 64 * depth(nl));
        assert(j / 2 < nl.len());
        assert forall|i: int| 0 <= i < nl.len() implies exists|x: Seq<u8>| (#[trigger] nl[i]) == H512(x) by {
            assert(nl[i] == H512(seq![1u8] + P[2 * i] + P[2 * i + 1]));
        }
        lemma_bind_same_len(nl, j / 2, nh, rest);
        // nh == nl[j/2] == nodeH(P[2q], P[2q+1])
        let q = j / 2;
        assert(nl[q] == nodeH(P[2 * q], P[2 * q + 1]));
        if j % 2 == 0 {
            node_injective(h, s, P[2 * q], P[2 * q + 1]);
            assert(h == P[j]);
            assert(s == P[sib(j)]);
        } else {
            node_injective(s, h, P[2 * q], P[2 * q + 1]);
            assert(h == P[j]);
            assert(s == P[sib(j)]);
        }
        assert(P[j] == l[j]);
        assert(p =~= s + rest);
    }
}

// ---------- binding, different-length case: a height argument ----------
pub open spec fn is_leaf(x: Seq<u8>) -> bool { exists|d: Seq<u8>| x == leafH(d) }

// attacker side: some descent of exactly k node steps ends in a leaf hash
pub open spec fn hk(x: Seq<u8>, k: nat) -> bool
    decreases k
{
    if k == 0 { is_leaf(x) } else {
        exists|a: Seq<u8>, b: Seq<u8>| #![trigger nodeH(a, b)] x == nodeH(a, b) && a.len() == 64 && b.len() == 64 && (hk(a, (k - 1) as nat) || hk(b, (k - 1) as nat))
    }
}
// honest side: every descent has exactly k node steps or ends in the zero pad
pub open spec fn tk(x: Seq<u8>, k: nat) -> bool
    decreases k
{
    if k == 0 { is_leaf(x) } else {
        exists|a: Seq<u8>, b: Seq<u8>| #![trigger nodeH(a, b)] x == nodeH(a, b) && a.len() == 64 && b.len() == 64
            && (tk(a, (k - 1) as nat) || a == zero_node()) && (tk(b, (k - 1) as nat) || b == zero_node())
    }
}

pub proof fn zero_has_no_height(t: nat)
    requires cr()
    ensures !hk(zero_node(), t)
{
    if hk(zero_node(), t) {
        if t == 0 {
            let d = choose|d: Seq<u8>| zero_node() == leafH(d);
            h512_nonzero(seq![0u8] + d);
        } else {
            let (a, b) = choose|a: Seq<u8>, b: Seq<u8>| #![trigger nodeH(a, b)] zero_node() == nodeH(a, b) && a.len() == 64 && b.len() == 64 && (hk(a, (t - 1) as nat) || hk(b, (t - 1) as nat));
            h512_nonzero(seq![1u8] + a + b);
        }
    }
}

pub proof fn heights_agree(x: Seq<u8>, k: nat, t: nat)
    requires cr(), tk(x, k), hk(x, t)
    ensures k == t
    decreases k
{
    if k == 0 {
        if t > 0 {
            let d = choose|d: Seq<u8>| x == leafH(d);
            let (a, b) = choose|a: Seq<u8>, b: Seq<u8>| #![trigger nodeH(a, b)] x == nodeH(a, b) && a.len() == 64 && b.len() == 64 && (hk(a, (t - 1) as nat) || hk(b, (t - 1) as nat));
            node_not_leaf(a, b, d);
        }
    } else {
        let (a, b) = choose|a: Seq<u8>, b: Seq<u8>| #![trigger nodeH(a, b)] x == nodeH(a, b) && a.len() == 64 && b.len() == 64
            && (tk(a, (k - 1) as nat) || a == zero_node()) && (tk(b, (k - 1) as nat) || b == zero_node());
        if t == 0 {
            let d = choose|d: Seq<u8>| x == leafH(d);
            node_not_leaf(a, b, d);
        } else {
            let (a2, b2) = choose|a2: Seq<u8>, b2: Seq<u8>| #![trigger nodeH(a2, b2)] x == nodeH(a2, b2) && a2.len() == 64 && b2.len() == 64 && (hk(a2, (t - 1) as nat) || hk(b2, (t - 1) as nat));
            node_injective(a, b, a2, b2);
            if hk(a, (t - 1) as nat) {
                if a == zero_node() { zero_has_no_height((t - 1) as nat); } else { heights_agree(a, (k - 1) as nat, (t - 1) as nat); }
            } else {
                if b == zero_node() { zero_has_no_height((t - 1) as nat); } else { heights_agree(b, (k - 1) as nat, (t - 1) as nat); }
            }
        }
    }
}

// folding m elements on top of something of height t gives height t + m
pub proof fn fold_height(j: int, h: Seq<u8>, p: Seq<u8>, t: nat)
    requires hk(h, t), h.len() == 64, p.len() % 64 == 0
    ensures hk(spec_fold(j, h, p), t + (p.len() / 64) as nat)
    decreases p.len()
{
    broadcast use h512_len;
    if p.len() >= 64 {
        let s = p.subrange(0, 64);
        let rest = p.subrange(64, p.len() as int);
        let nh = if j % 2 == 0 { nodeH(h, s) } else { nodeH(s, h) };
        assert(hk(nh, t + 1)) by {
            if j % 2 == 0 { assert(nh == nodeH(h, s)); } else { assert(nh == nodeH(s, h)); }
        }
        fold_height(j / 2, nh, rest, t + 1);
        assert(t + 1 + (rest.len() / 64) as nat == t + (p.len() / 64) as nat);
    }
}

pub open spec fn all_tk(l: Seq<Seq<u8>>, k: nat) -> bool { forall|i: int| 0 <= i < l.len() ==> tk(#[trigger] l[i], k) }

// the honest root has height exactly depth(l)
pub proof fn root_height(l: Seq<Seq<u8>>, k: nat)
    requires l.len() >= 1, all64(l), all_tk(l, k)
    ensures tk(spec_root(l), k + depth(l))
    decreases l.len()
{
    broadcast use h512_len;
    if l.len() > 1 {
        lemma_next_props(l);
        let P = pad(l);
        let nl = next_level(l);
        assert forall|i: int| 0 <= i < nl.len() implies tk(#[trigger] nl[i], k + 1) by {
            assert(nl[i] == nodeH(P[2 * i], P[2 * i + 1]));
            assert(P[2 * i] == l[2 * i]);
            assert(tk(P[2 * i], k));
            assert(tk(P[2 * i + 1], k) || P[2 * i + 1] == zero_node());
        }
        root_height(nl, k + 1);
    }
}

// ---------- the binding theorem ----------
pub proof fn theorem_binding(l: Seq<Seq<u8>>, j: int, d: Seq<u8>, p: Seq<u8>)
    requires cr(),
        l.len() >= 1, all64(l), all_tk(l, 0), 0 <= j < l.len(),
        p.len() % 64 == 0,
        spec_fold(j, leafH(d), p) == spec_root(l),
    ensures
        leafH(d) == l[j],               // only the leaf that is at position j
        p == spec_path(l, j),           // only the honest path: nothing changed, added or removed
{
    broadcast use h512_len;
    let h = leafH(d);
    assert(hk(h, 0));
    fold_height(j, h, p, 0);
    root_height(l, 0);
    heights_agree(spec_root(l), depth(l), (p.len() / 64) as nat);
    assert(p.len() == 64 * depth(l));
    assert forall|i: int| 0 <= i < l.len() implies exists|x: Seq<u8>| (#[trigger] l[i]) == H512(x) by {
        assert(tk(l[i], 0));
        let dd = choose|dd: Seq<u8>| l[i] == leafH(dd);
        assert(l[i] == H512(seq![0u8] + dd));
    }
    lemma_bind_same_len(l, j, h, p);
}

// corollaries in the property's words
pub proof fn corollary_other_leaf_or_index(leaves: Seq<Seq<u8>>, i: int, j: int, p: Seq<u8>)
    requires cr(),
        leaves.len() >= 1, 0 <= i < leaves.len(), 0 <= j < leaves.len(), p.len() % 64 == 0,
        forall|a: int, b: int| 0 <= a < b < leaves.len() ==> leaves[a] != leaves[b],   // pairwise distinct leaves
        spec_fold(j, leafH(leaves[i]), p) == spec_root(Seq::new(leaves.len(), |k: int| leafH(leaves[k]))),
    ensures i == j, p == spec_path(Seq::new(leaves.len(), |k: int| leafH(leaves[k])), j)
{
    broadcast use h512_len;
    let l = Seq::new(leaves.len(), |k: int| leafH(leaves[k]));
    assert(all_tk(l, 0)) by { assert forall|k: int| 0 <= k < l.len() implies tk(#[trigger] l[k], 0) by { assert(l[k] == leafH(leaves[k])); } }
    theorem_binding(l, j, leaves[i], p);
    leaf_injective(leaves[i], leaves[j]);
}
}
fn main() {}
