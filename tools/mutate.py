#!/usr/bin/env python3
"""Self-test of the checks: applies deliberate edits to a scratch copy of /repo and runs the named check against it.

  property-breaking edits  -> the check must exit 1 (VIOLATION)          [rc 2 is reported as 'undecided', rc 0 as MISSED]
  harmless edits           -> the check must exit 0 or 2, never 1        [rc 1 is a FALSE ALARM]

usage: mutate.py [name-substring ...]      (results: work/mutation_report.json, one line per edit on stdout)
The scratch copies live under /tmp and are removed after each edit.
"""
import json, os, shutil, subprocess, sys, time

V = os.path.dirname(os.path.dirname(os.path.abspath(__file__)))

# (name, property, file, old, new, kind)
M = [
    # ---- message.rs (C05/C06) ----
    ("msg_tag_order_le", "C05", "src/message.rs", "            if tag <= *last_tag {\n                return Err(Error::TagNotStrictlyIncreasing(tag));\n            }\n        }\n\n        self.tags.push(tag);", "            if tag < *last_tag {\n                return Err(Error::TagNotStrictlyIncreasing(tag));\n            }\n        }\n\n        self.tags.push(tag);", "break"),
    ("msg_offset_gt_to_ge", "C05", "src/message.rs", "} else if offset > bytes_len as u32 {", "} else if offset >= bytes_len as u32 {", "harmless"),  # equivalent: offset == bytes_len is rejected by the later end_idx check anyway
    ("msg_align_check_dropped", "C05", "src/message.rs", "if offset % 4 != 0 {", "if offset % 2 != 0 {", "break"),
    ("msg_encode_offset_start", "C05", "src/message.rs", "let mut offset_sum = self.values[0].len();", "let mut offset_sum = self.values[0].len() + 4;", "break"),
    ("msg_frame_len_counts_header", "C05", "src/message.rs", "frame.write_u32::<LittleEndian>(encoded.len() as u32)?;", "frame.write_u32::<LittleEndian>(encoded.len() as u32 + 12)?;", "break"),
    ("msg_single_tag_min_len", "C06", "src/message.rs", "if bytes.len() < 8 {\n            return Err(Error::MessageTooShort);", "if bytes.len() < 4 {\n            return Err(Error::MessageTooShort);", "break"),
    ("msg_max_tags_raised", "C06", "src/message.rs", "2..=1024 => RtMessage::multi_tag_message(num_tags, bytes, &mut msg),\n            _ => Err(Error::InvalidNumTags(num_tags)),", "2..=1024 => RtMessage::multi_tag_message(num_tags, bytes, &mut msg),\n            _ => RtMessage::multi_tag_message(num_tags, bytes, &mut msg),", "break"),
    ("msg_display_depth_limit_removed", "C06", "src/message.rs", "if tag.is_nested() && indent_level < MAX_DISPLAY_NESTING =>", "if tag.is_nested() =>", "break"),
    # ---- merkle.rs (C04) ----
    ("mk_swap_left_right", "C04", "src/merkle.rs", "            if index & 1 == 0 {\n                // Left\n                ctx.update(&hash);\n                ctx.update(path);", "            if index & 1 == 1 {\n                // Left\n                ctx.update(&hash);\n                ctx.update(path);", "break"),
    ("mk_wrong_sibling", "C04", "src/merkle.rs", "let sibling = if index % 2 == 0 { index + 1 } else { index - 1 };", "let sibling = if index % 2 == 0 { index + 1 } else { index };", "break"),
    ("mk_leaf_tweak_for_nodes", "C04", "src/merkle.rs", "self.hash(&[TREE_NODE_TWEAK, first, second])", "self.hash(&[TREE_LEAF_TWEAK, first, second])", "break"),
    ("mk_reset_noop", "C04", "src/merkle.rs", "        for level in &mut self.levels {\n            level.clear();\n        }", "        for level in &mut self.levels {\n            level.len();\n        }", "break"),
    ("mk_ietf_width_64", "C02", "src/merkle.rs", "            RfcDraft13 => 32,\n            Google => self.algorithm.output_len(),", "            RfcDraft13 => self.algorithm.output_len(),\n            Google => self.algorithm.output_len(),", "break"),
    # ---- sign.rs (C13) ----
    ("sg_update_overwrites", "C13", "src/sign.rs", "        self.buf.reserve(data.len());\n        self.buf.extend_from_slice(data);", "        self.buf.clear();\n        self.buf.extend_from_slice(data);", "break"),
    # ---- keys (C10, C11, C12) ----
    ("key_srv_prefix_missing", "C10", "src/key/longterm.rs", "        ctx.update(Tag::HASH_PREFIX_SRV);\n", "", "break"),
    ("key_cert_wrong_prefix", "C10", "src/key/longterm.rs", "self.signer.update(version.dele_prefix());", "self.signer.update(version.sign_prefix());", "break"),
    ("key_midp_millis", "C11", "src/key/online.rs", "let secs = d.as_secs() * 1_000_000;", "let secs = d.as_secs() * 1_000;", "break"),
    ("key_radi_swapped", "C11", "src/key/online.rs", "            Version::Google => 5_000_000, // five seconds in microseconds\n            Version::RfcDraft13 => 5,      // five seconds", "            Version::Google => 5, // five seconds in microseconds\n            Version::RfcDraft13 => 5_000_000,      // five seconds", "break"),
    ("key_srep_ver_missing", "C12", "src/key/online.rs", "            srep_msg.add_field(Tag::VER, version.wire_bytes()).unwrap();\n", "", "break"),
    ("ver_draft_number", "C12", "src/version.rs", "wire: &[0x0c, 0x00, 0x00, 0x80],", "wire: &[0x0b, 0x00, 0x00, 0x80],", "break"),
    ("ver_dele_ctx_dashes", "C10", "src/version.rs", "dele_prefix: b\"RoughTime v1 delegation signature\\x00\",", "dele_prefix: b\"RoughTime v1 delegation signature--\\x00\",", "break"),
    # ---- request.rs (C07, C12) ----
    ("rq_max_len_gt", "C07", "src/request.rs", "} else if num_bytes > MAX_REQUEST_LENGTH {", "} else if num_bytes > MAX_REQUEST_LENGTH + 4 {", "break"),
    ("rq_srv_check_inverted", "C12", "src/request.rs", "if request_srv != expected_srv {", "if request_srv == expected_srv {", "break"),
    ("rq_frame_len_ignored", "C07", "src/request.rs", "if reported_len != actual_len {", "if reported_len > actual_len {", "break"),
    # ---- responder / server (C09, C08, C02) ----
    ("rs_indx_zero", "C09", "src/responder.rs", "self.make_response(&srep, &self.cert_bytes, &paths, idx as u32, nonce);", "self.make_response(&srep, &self.cert_bytes, &paths, 0, nonce);", "break"),
    ("rs_path_of_zero", "C09", "src/responder.rs", "let paths = self.merkle.get_paths(idx);", "let paths = self.merkle.get_paths(0);", "break"),
    ("rs_classic_leaf_whole_request", "C02", "src/server.rs", "self.responder_classic.add_classic_request(nonce, src_addr);", "self.responder_ietf.add_classic_request(nonce, src_addr);", "break"),
    # guard-`continue` in the receive loop (rule R34): a dead one is harmless, one that drops a datagram uncounted breaks C17
    ("h_server_dead_continue", "C17", "src/server.rs", "                Ok((num_bytes, src_addr)) => {\n", "                Ok((num_bytes, src_addr)) => {\n                    if num_bytes > self.buf.len() {\n                        debug!(\"cannot happen\");\n                        continue;\n                    }\n", "harmless"),
    ("sv_runt_dropped_uncounted", "C17", "src/server.rs", "                Ok((num_bytes, src_addr)) => {\n", "                Ok((num_bytes, src_addr)) => {\n                    if num_bytes < 1024 {\n                        continue;\n                    }\n", "break"),
    ("rs_ietf_leaf_truncated", "C02", "src/server.rs", "let request_bytes = &self.buf[..num_bytes];", "let request_bytes = &self.buf[12..num_bytes];", "break"),
    ("rs_queue_on_error", "C07", "src/server.rs", "                        Err(e) => {\n                            self.stats_recorder.add_invalid_request(&src_addr.ip(), &e);", "                        Err(e) => {\n                            self.responder_classic.add_classic_request(vec![0u8; 64], src_addr);\n                            self.stats_recorder.add_invalid_request(&src_addr.ip(), &e);", "break"),
    ("rs_short_nonce_log", "C08", "src/responder.rs", "HEX.encode(&nonce[0..4]),", "HEX.encode(&nonce[0..65]),", "break"),
    ("gr_unwrap_on_missing", "C08", "src/grease.rs", "        if src_msg.get_field(Tag::SIG).is_none() {\n            return src_msg.to_owned();\n        }\n", "", "break"),
    # ---- client (C01, C03) ----
    ("cl_skip_srep_check", "C01", "src/bin/roughenough-client.rs", "            self.validate_dele();\n            self.validate_srep();\n            true", "            self.validate_dele();\n            true", "break"),
    ("cl_wrong_context", "C01", "src/bin/roughenough-client.rs", "let mut cert_data = Vec::from(self.version.dele_prefix());", "let mut cert_data = Vec::from(self.version.sign_prefix());", "break"),
    ("cl_merkle_skipped_without_key", "C01", "src/bin/roughenough-client.rs", "        self.validate_merkle();\n        self.validate_midpoint(midpoint);", "        if self.pub_key.is_some() { self.validate_merkle(); }\n        self.validate_midpoint(midpoint);", "break"),
    ("cl_nsecs_factor", "C03", "src/bin/roughenough-client.rs", "let nsecs = (midpoint - (seconds * 10_u64.pow(6))) * 10_u64.pow(3);", "let nsecs = (midpoint - (seconds * 10_u64.pow(6))) * 10_u64.pow(6);", "break"),
    ("cl_request_pad_short", "C03", "src/bin/roughenough-client.rs", "            msg.add_field(Tag::PAD, &padding).unwrap();\n\n            if text_dump {\n                eprintln!(\"Request = {}\", msg);\n            }\n\n            msg.encode().unwrap()", "            msg.add_field(Tag::PAD, &padding[4..]).unwrap();\n\n            if text_dump {\n                eprintln!(\"Request = {}\", msg);\n            }\n\n            msg.encode().unwrap()", "break"),
    # ---- stats / envelope (C17, C14) ----
    ("st_merge_overwrites", "C17", "src/stats/mod.rs", "self.invalid_requests += other.invalid_requests;", "self.invalid_requests = other.invalid_requests;", "break"),
    ("st_overflow_not_counted", "C17", "src/stats/per_client.rs", "        if too_big {\n            self.num_overflows += 1;\n        }", "        if too_big && self.num_overflows == 0 {\n            self.num_overflows += 1;\n        }", "break"),
    ("st_agg_wrong_counter", "C17", "src/stats/aggregated.rs", "    fn add_classic_request(&mut self, _: &IpAddr) {\n        self.classic_requests += 1", "    fn add_classic_request(&mut self, _: &IpAddr) {\n        self.rfc_requests += 1", "break"),
    ("env_nonce_len_unchecked", "C14", "src/kms/envelope.rs", "if nonce_len != NONCE_LEN_BYTES || dek_len > ciphertext_blob.len() {", "if dek_len > ciphertext_blob.len() {", "break"),
    ("env_layout_swapped", "C14", "src/kms/envelope.rs", "        output.write_all(&wrapped_dek)?;\n        output.write_all(&raw_nonce)?;", "        output.write_all(&raw_nonce)?;\n        output.write_all(&wrapped_dek)?;", "break"),
    # ---- config (C16) ----
    ("cfg_port_as_u16", "C16", "src/config/file.rs", "config.port = u16::try_from(value.as_i64().unwrap()).expect(\"port out of range\")", "config.port = value.as_i64().unwrap() as u16", "break"),
    ("cfg_env_workers_name", "C16", "src/config/environment.rs", "const ROUGHENOUGH_NUM_WORKERS: &str = \"ROUGHENOUGH_NUM_WORKERS\";", "const ROUGHENOUGH_NUM_WORKERS: &str = \"ROUGHENOUGH_WORKERS\";", "break"),
    ("cfg_valid_batch_128", "C16", "src/config/mod.rs", "if cfg.batch_size() < 1 || cfg.batch_size() > 64 {", "if cfg.batch_size() < 1 || cfg.batch_size() > 128 {", "break"),
    ("cfg_valid_fault_60", "C16", "src/config/mod.rs", "if cfg.fault_percentage() > 50 {", "if cfg.fault_percentage() > 60 {", "break"),
    ("cfg_getter_swapped", "C16", "src/config/file.rs", "    fn fault_percentage(&self) -> u8 {\n        self.fault_percentage\n    }", "    fn fault_percentage(&self) -> u8 {\n        self.batch_size\n    }", "break"),
    ("cfg_unknown_key_ignored", "C16", "src/config/file.rs", "                unknown => {\n                    return Err(Error::InvalidConfiguration(format!(\n                        \"unknown config key: {}\",\n                        unknown\n                    )));\n                }", "                unknown => {\n                    warn!(\"ignoring unknown config key: {}\", unknown);\n                }", "break"),
    ("cfg_env_interface_from_port", "C16", "src/config/environment.rs", "if let Ok(interface) = env::var(ROUGHENOUGH_INTERFACE) {", "if let Ok(interface) = env::var(ROUGHENOUGH_PORT) {", "break"),
    ("cfg_load_seed_ignores_kms", "C10", "src/kms/mod.rs", "        v => Err(error::Error::InvalidConfiguration(format!(\n            \"kms_protection '{}' requires KMS, but server was not compiled with KMS support\",\n            v\n        ))),", "        _ => Ok(config.seed()),", "break"),
    # ---- client main(), reporter, grease sizes, health check ----
    ("cl_nonce_reused", "C01", "src/bin/roughenough-client.rs", "    for _ in 0..num_requests {\n        let nonce = create_nonce(version);", "    let nonce0 = create_nonce(version);\n    for _ in 0..num_requests {\n        let nonce = nonce0.clone();", "break"),
    ("cl_verify_args_swapped", "C01", "src/bin/roughenough-client.rs", "ResponseHandler::new(version, pub_key.clone(), resp.clone(), nonce.clone(), request)", "ResponseHandler::new(version, pub_key.clone(), resp.clone(), request.clone(), nonce)", "break"),
    ("cl_nonce_len_classic_32", "C03", "src/bin/roughenough-client.rs", "            let mut nonce = [0u8; 64];", "            let mut nonce = [0u8; 32];", "break"),
    ("rep_merge_replaced", "C17", "src/stats/reporter.rs", "                    .or_insert_with_key(|ip_addr| ClientStats::new(*ip_addr))\n                    .merge(&client);", "                    .or_insert_with_key(|ip_addr| ClientStats::new(*ip_addr))\n                    .rfc_requests += client.rfc_requests;", "break"),
    ("gr_corrupt_keeps_nonce_twice", "C07", "src/grease.rs", "let mut random_sig: [u8; SIGNATURE_LENGTH as usize] = [0u8; SIGNATURE_LENGTH as usize];", "let mut random_sig: [u8; 1024] = [0u8; 1024];", "break"),
    ("hc_accept_unwrap", "C08", "src/server.rs", "                match stream.write_all(HTTP_RESPONSE.as_bytes()) {\n                    Ok(_) => (),\n                    Err(e) => warn!(\"error writing health check {}\", e),\n                };", "                stream.write_all(HTTP_RESPONSE.as_bytes()).unwrap();", "break"),
    ("h_config_helper", "C16", "src/config/mod.rs", "    if cfg.batch_size() < 1 || cfg.batch_size() > 64 {", "    if !(1..=64).contains(&cfg.batch_size()) {", "harmless"),
    ("h_reporter_counter_type", "C17", "src/stats/reporter.rs", "let mut num_processed = 0;\n\n        while let", "let mut num_processed: i32 = 0;\n\n        while let", "harmless"),
    ("st_pc_total_valid_only_rfc", "C17", "src/stats/per_client.rs", ".map(|&v| v.rfc_requests as u64 + v.classic_requests as u64)", ".map(|&v| v.rfc_requests as u64)", "break"),
    ("st_pc_total_bytes_counts_responses", "C17", "src/stats/per_client.rs", "self.clients.values().map(|&v| v.bytes_sent).sum()", "self.clients.values().map(|&v| v.rfc_responses_sent as usize).sum()", "break"),
    ("st_agg_getter_wrong_field", "C17", "src/stats/aggregated.rs", "    fn total_health_checks(&self) -> u64 {\n        self.health_checks", "    fn total_health_checks(&self) -> u64 {\n        self.invalid_requests", "break"),
    ("h_msg_size_operands_swapped", "C05", "src/message.rs", "        4 + tags_size + offsets_size + values_size", "        values_size + offsets_size + tags_size + 4", "harmless"),
    ("h_msg_offsets_size_rewritten", "C05", "src/message.rs", "let offsets_size = if num_tags < 2 { 0 } else { 4 * (num_tags - 1) };", "let offsets_size = if num_tags >= 2 { 4 * (num_tags - 1) } else { 0 };", "harmless"),
    ("h_merkle_is_empty", "C04", "src/merkle.rs", "while !self.levels[level].is_empty() {", "while self.levels[level].len() > 0 {", "harmless"),
    ("h_request_temp_variable", "C07", "src/request.rs", "    if num_bytes < MIN_REQUEST_LENGTH {", "    let too_short = num_bytes < MIN_REQUEST_LENGTH;\n    if too_short {", "harmless"),
    ("h_keys_radi_match_to_if", "C11", "src/key/online.rs", "        let radi_time = match version {\n            Version::Google => 5_000_000, // five seconds in microseconds\n            Version::RfcDraft13 => 5,      // five seconds\n        };", "        let radi_time = if version == Version::Google { 5_000_000 } else { 5 };", "harmless"),
    ("h_responder_debug_assert", "C09", "src/responder.rs", "        let merkle_root = self.merkle.compute_root();", "        debug_assert!(!self.requests.is_empty());\n        let merkle_root = self.merkle.compute_root();", "harmless"),
    ("h_client_midpoint_operands", "C03", "src/bin/roughenough-client.rs", "let nsecs = (midpoint - (seconds * 10_u64.pow(6))) * 10_u64.pow(3);", "let nsecs = 10_u64.pow(3) * (midpoint - (10_u64.pow(6) * seconds));", "harmless"),
    ("h_stats_plus_equals", "C17", "src/stats/aggregated.rs", "        self.rfc_requests += 1", "        self.rfc_requests = self.rfc_requests + 1", "harmless"),
    ("h_envelope_len_check_flipped", "C14", "src/kms/envelope.rs", "if nonce_len != NONCE_LEN_BYTES || dek_len > ciphertext_blob.len() {", "if dek_len > ciphertext_blob.len() || nonce_len != NONCE_LEN_BYTES {", "harmless"),
    ("h_config_range_contains", "C16", "src/config/mod.rs", "    if cfg.fault_percentage() > 50 {", "    if cfg.fault_percentage() >= 51 {", "harmless"),
    ("h_server_srv_local", "C12", "src/request.rs", "        if request_srv != expected_srv {", "        let matches = request_srv == expected_srv;\n        if !matches {", "harmless"),
    ("sc_recorder_not_cleared", "C17", "src/server.rs", "            self.stats_queue.force_push(clients);\n            self.stats_recorder.clear();", "            self.stats_queue.force_push(clients);", "break"),
    ("sc_snapshot_pushed_when_empty_cleared", "C17", "src/server.rs", "        if client_count > 0 {\n            self.stats_queue.force_push(clients);\n            self.stats_recorder.clear();\n        }", "        self.stats_recorder.clear();\n        if client_count > 0 {\n            self.stats_queue.force_push(clients);\n        }", "break"),
    ("h_sign_inline_attr", "C13", "src/sign.rs", "    pub fn update(&mut self, data: &[u8]) {\n        self.buf.reserve(data.len());", "    #[inline]\n    pub fn update(&mut self, data: &[u8]) {\n        self.buf.reserve(data.len());", "harmless"),
    ("h_merkle_must_use_doc", "C04", "src/merkle.rs", "    pub fn compute_root(&mut self) -> Hash {", "    /// Returns the root of the tree built from the leaves pushed so far.\n    #[must_use]\n    pub fn compute_root(&mut self) -> Hash {", "harmless"),
    ("h_request_allow_attr", "C07", "src/request.rs", "pub fn nonce_from_request(", "#[allow(clippy::too_many_arguments)]\npub fn nonce_from_request(", "harmless"),
    # ---- harmless edits: must never give a VIOLATION ----
    ("h_msg_extra_capacity", "C05", "src/message.rs", "let mut out = Vec::with_capacity(self.encoded_size());", "let mut out = Vec::with_capacity(self.encoded_size() + 0);", "harmless"),
    ("h_merkle_renamed_local", "C04", "src/merkle.rs", "let mut node_count = self.levels[0].len();", "let mut node_count: usize = self.levels[0].len();", "harmless"),
    ("h_request_reordered_checks", "C07", "src/request.rs", "    if num_bytes < MIN_REQUEST_LENGTH {\n        return Err(Error::RequestTooShort);\n    } else if num_bytes > MAX_REQUEST_LENGTH {\n        return Err(Error::RequestTooLarge);\n    }", "    if num_bytes > MAX_REQUEST_LENGTH {\n        return Err(Error::RequestTooLarge);\n    } else if num_bytes < MIN_REQUEST_LENGTH {\n        return Err(Error::RequestTooShort);\n    }", "harmless"),
    ("h_responder_extra_log", "C09", "src/responder.rs", "            let paths = self.merkle.get_paths(idx);", "            trace!(\"reply {} of {}\", idx, self.requests.len());\n            let paths = self.merkle.get_paths(idx);", "harmless"),
    ("h_sign_local_renamed", "C13", "src/sign.rs", "        let signature = self.signing_key.sign(&self.buf).to_vec();\n        self.buf.clear();\n\n        signature", "        let sig = self.signing_key.sign(&self.buf).to_vec();\n        self.buf.clear();\n        sig", "harmless"),
    ("h_client_message_text", "C01", "src/bin/roughenough-client.rs", "println!(\"Valid signature on DELE tag\");", "println!(\"DELE signature is valid\");", "harmless"),
    ("h_keys_comment_and_parens", "C11", "src/key/online.rs", "let nsecs = (d.subsec_nanos() as u64) / 1_000;", "let nsecs = ((d.subsec_nanos() as u64)) / 1_000; // microseconds", "harmless"),
]


def sh(cmd, cwd=None):
    p = subprocess.run(cmd, cwd=cwd, shell=True, capture_output=True, text=True)
    return p.returncode, p.stdout + p.stderr


def main():
    sel = sys.argv[1:]
    rows = []
    for (name, prop, f, old, new, kind) in M:
        if sel and not any(s in name for s in sel):
            continue
        scr = "/tmp/verif-mut-%d" % os.getpid()
        shutil.rmtree(scr, ignore_errors=True)
        sh("mkdir -p %s && rsync -a --exclude target --exclude .git /repo/ %s/" % (scr, scr))
        p = os.path.join(scr, f)
        s = open(p).read()
        if old not in s:
            rows.append({"name": name, "property": prop, "kind": kind, "result": "PATTERN-NOT-FOUND"})
            print("%-34s %-4s %-9s PATTERN-NOT-FOUND" % (name, prop, kind), flush=True)
            shutil.rmtree(scr, ignore_errors=True)
            continue
        open(p, "w").write(s.replace(old, new, 1))
        t0 = time.time()
        rc, out = sh("./check %s --repo %s" % (prop, scr), cwd=V)
        line = [l for l in out.splitlines() if l.startswith(("FAILED OBLIGATION", "UNDECIDED"))][:1]
        if kind == "break":
            res = {1: "caught", 2: "undecided", 0: "MISSED"}.get(rc, "rc=%d" % rc)
        else:
            res = {0: "ok", 2: "undecided(ok)", 1: "FALSE-ALARM"}.get(rc, "rc=%d" % rc)
        rows.append({"name": name, "property": prop, "kind": kind, "rc": rc, "result": res, "first": (line[0][:260] if line else ""), "wall_s": round(time.time() - t0, 1)})
        print("%-34s %-4s %-9s %-14s %s" % (name, prop, kind, res, (line[0][:150] if line else "")), flush=True)
        shutil.rmtree(scr, ignore_errors=True)
    os.makedirs(os.path.join(V, "work"), exist_ok=True)
    json.dump(rows, open(os.path.join(V, "work", "mutation_report.json"), "w"), indent=1)
    bad = [r for r in rows if r["result"] in ("MISSED", "FALSE-ALARM", "PATTERN-NOT-FOUND")]
    print("\n%d edits, %d need attention" % (len(rows), len(bad)))


if __name__ == "__main__":
    main()
