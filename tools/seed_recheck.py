#!/usr/bin/env python3
"""Re-runs the checks against every stored seeded change (seeded/<id>/patch.diff) and compares with the recorded verdict.
usage: seed_recheck.py [ID ...]      (default: all);  env SEED_PAR = seeds evaluated side by side (default 3)
Works from a snapshot of /verif (needs only the committed files and /repo); private copies of /repo under /tmp, removed.
Prints one line per seed: id, property, recorded rc -> rc now, and REGRESSION when a recorded VIOLATION (rc 1) is no longer reported.
"""
import json, os, re, shutil, subprocess, sys
from concurrent.futures import ThreadPoolExecutor
V = os.path.dirname(os.path.dirname(os.path.abspath(__file__)))


def sh(cmd, cwd=None):
    p = subprocess.run(cmd, cwd=cwd, shell=True, capture_output=True, text=True)
    return p.returncode, p.stdout + p.stderr


def one(sid):
    sd = os.path.join(V, "seeded", sid)
    meta = json.load(open(os.path.join(sd, "meta.json")))
    prop = meta["property"]
    old = (meta.get("evaluation", {}).get("checks", {}).get(prop) or {}).get("rc")
    cp = "/tmp/seed-recheck-%s-%d" % (sid, os.getpid())
    try:
        sh("rm -rf %s && mkdir -p %s && rsync -a --exclude target --exclude .git /repo/ %s/" % (cp, cp, cp))
        rc, o = sh("patch -p1 < %s/patch.diff" % sd, cwd=cp)
        if rc != 0:
            return sid, prop, old, "apply-failed", []
        rc2, o2 = sh("./check %s --repo %s" % (prop, cp), cwd=V)
        lines = [l for l in o2.splitlines() if l.startswith(("VIOLATION", "FAILED OBLIGATION", "UNDECIDED"))]
        return sid, prop, old, rc2, lines[:3]
    finally:
        shutil.rmtree(cp, ignore_errors=True)


def main():
    ids = sys.argv[1:] or sorted(d for d in os.listdir(os.path.join(V, "seeded")) if re.match(r"C\d\d-\d+$", d))
    bad = 0
    with ThreadPoolExecutor(max_workers=int(os.environ.get("SEED_PAR", "3"))) as ex:
        for sid, prop, old, new, lines in ex.map(one, ids):
            flag = ""
            if old == 1 and new != 1:
                flag = "  REGRESSION"
                bad += 1
            elif old != 1 and new == 1:
                flag = "  (now reported)"
            elif new == 0:
                flag = "  MISSED"
                bad += 1
            print("%s %s recorded=%s now=%s%s" % (sid, prop, old, new, flag), flush=True)
            if flag:
                for l in lines:
                    print("     " + l[:220], flush=True)
    print("%d seeds, %d need attention" % (len(ids), bad))
    sys.exit(1 if bad else 0)


if __name__ == "__main__":
    main()
