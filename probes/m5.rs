use vstd::prelude::*;
verus! {
fn f(n: u32, v: &Vec<u8>) -> (r: Vec<u32>)
    requires n >= 1
    ensures r@.len() == n - 1
{
    let mut o: Vec<u32> = Vec::new();
    for _ in it: 0..n - 1
        invariant o@.len() == it.index(),
    {
        o.push(7);
    }
    o
}
}
fn main() {}
