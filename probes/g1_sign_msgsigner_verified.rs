use vstd::prelude::*;
verus! {
global size_of usize == 8;

// ---- ed25519 idealisation ----
pub uninterp spec fn ed_pk(seed: Seq<u8>) -> Seq<u8>;
pub uninterp spec fn ed_sign(seed: Seq<u8>, msg: Seq<u8>) -> Seq<u8>;
pub uninterp spec fn ed_verify(pk: Seq<u8>, msg: Seq<u8>, sig: Seq<u8>) -> bool;
pub broadcast axiom fn ed_correct(seed: Seq<u8>, msg: Seq<u8>)
    ensures #[trigger] ed_verify(ed_pk(seed), msg, ed_sign(seed, msg));

pub assume_specification<T: Clone> [<[T]>::to_vec] (s: &[T]) -> (r: Vec<T>)
    ensures r@ == s@;
// ---- dalek shim ----
pub struct SecretKey { pub b: Vec<u8> }
pub struct SigningKey { pub seed: Ghost<Seq<u8>> }
pub struct VerifyingKey { pub pk: Ghost<Seq<u8>> }
pub struct Signature { pub s: Vec<u8> }
#[derive(Debug)]
pub struct SigError;

impl SecretKey {
    #[verifier::external_body]
    pub fn try_from(seed: &[u8]) -> (r: Result<SecretKey, SigError>)
        ensures seed@.len() == 32 ==> r is Ok && r->Ok_0.b@ == seed@, seed@.len() != 32 ==> r is Err
    { unimplemented!() }
}
impl SigningKey {
    #[verifier::external_body]
    pub fn from(k: SecretKey) -> (r: SigningKey) ensures r.seed@ == k.b@ { unimplemented!() }
    #[verifier::external_body]
    pub fn sign(&self, msg: &Vec<u8>) -> (r: Signature) ensures r.s@ == ed_sign(self.seed@, msg@), r.s@.len() == 64 { unimplemented!() }
    #[verifier::external_body]
    pub fn verifying_key(&self) -> (r: VerifyingKey) ensures r.pk@ == ed_pk(self.seed@) { unimplemented!() }
}
impl Signature {
    pub fn to_vec(&self) -> (r: Vec<u8>) ensures r@ == self.s@ { self.s.clone() }
    #[verifier::external_body]
    pub fn from_slice(b: &[u8]) -> (r: Result<Signature, SigError>)
        ensures b@.len() == 64 ==> r is Ok && r->Ok_0.s@ == b@, b@.len() != 64 ==> r is Err
    { unimplemented!() }
}
impl VerifyingKey {
    #[verifier::external_body]
    pub fn as_bytes(&self) -> (r: &[u8; 32]) ensures r@ == self.pk@ { unimplemented!() }
    #[verifier::external_body]
    pub fn verify(&self, msg: &Vec<u8>, sig: &Signature) -> (r: Result<(), SigError>)
        ensures r is Ok == ed_verify(self.pk@, msg@, sig.s@)
    { unimplemented!() }
}

const INITIAL_BUF_SIZE: usize = 1024;

pub struct MsgSigner {
    signing_key: SigningKey,
    buf: Vec<u8>,
}

impl MsgSigner {
    pub closed spec fn seed(&self) -> Seq<u8> { self.signing_key.seed@ }
    pub closed spec fn pending(&self) -> Seq<u8> { self.buf@ }

    pub fn from_seed(seed: &[u8]) -> (r: Self)
        requires seed@.len() == 32
        ensures r.seed() == seed@, r.pending() == Seq::<u8>::empty()
    {
        let secret_key = SecretKey::try_from(seed).expect("invalid seed");
        MsgSigner {
            signing_key: SigningKey::from(secret_key),
            buf: Vec::with_capacity(INITIAL_BUF_SIZE),
        }
    }

    pub fn update(&mut self, data: &[u8])
        ensures final(self).pending() == old(self).pending() + data@, final(self).seed() == old(self).seed()
    {
        self.buf.reserve(data.len());
        self.buf.extend_from_slice(data);
    }

    pub fn sign(&mut self) -> (r: Vec<u8>)
        ensures r@ == ed_sign(old(self).seed(), old(self).pending()),
            final(self).pending() == Seq::<u8>::empty(), final(self).seed() == old(self).seed(),
            r@.len() == 64
    {
        let signature = self.signing_key.sign(&self.buf).to_vec();
        self.buf.clear();

        signature
    }

    pub fn public_key_bytes(&self) -> (r: Vec<u8>)
        ensures r@ == ed_pk(self.seed())
    {
        let binding = self.signing_key.verifying_key();
        binding.as_bytes().to_vec()
    }
}

// ---- sequence-of-messages lemma (C13): k-th signature depends only on k-th message ----
pub open spec fn cat(chunks: Seq<Seq<u8>>) -> Seq<u8>
    decreases chunks.len()
{ if chunks.len() == 0 { Seq::empty() } else { cat(chunks.drop_last()) + chunks.last() } }

// abstract run of the signer API: state = pending buffer
pub open spec fn after_updates(pending: Seq<u8>, chunks: Seq<Seq<u8>>) -> Seq<u8>
    decreases chunks.len()
{ if chunks.len() == 0 { pending } else { after_updates(pending, chunks.drop_last()) + chunks.last() } }

pub proof fn lemma_updates(pending: Seq<u8>, chunks: Seq<Seq<u8>>)
    ensures after_updates(pending, chunks) =~= pending + cat(chunks)
    decreases chunks.len()
{
    if chunks.len() > 0 { lemma_updates(pending, chunks.drop_last()); }
}
}
fn main() {}
