#![feature(print_internals)]
use vstd::prelude::*;
use std::collections::HashMap;
verus! {
#[derive(Debug, PartialEq, Eq, Hash, Clone, Copy)]
pub enum Tag { SIG, DELE, PUBK, MINT, MAXT, MIDP, RADI, SREP, CERT, ROOT, INDX, PATH }

pub uninterp spec fn ed_verify(pk: Seq<u8>, data: Seq<u8>, sig: Seq<u8>) -> bool;
pub uninterp spec fn dele_prefix() -> Seq<u8>;
pub uninterp spec fn sign_prefix() -> Seq<u8>;
pub open spec fn u64_le(s: Seq<u8>) -> int { s[0] as int + 256 * (s[1] as int) } // abbreviated for probe

#[derive(Debug)]
pub struct IoError;
pub struct LittleEndian;
pub trait ReadBytesExt { fn read_u64<T>(&mut self) -> Result<u64, IoError>; fn read_u32<T>(&mut self) -> Result<u32, IoError>; }
impl ReadBytesExt for &[u8] {
    #[verifier::external_body]
    fn read_u64<T>(&mut self) -> (r: Result<u64, IoError>)
        ensures match r { Ok(v) => old(self)@.len() >= 8 && v as int == u64_le(old(self)@), Err(_) => old(self)@.len() < 8 }
    { unimplemented!() }
    #[verifier::external_body]
    fn read_u32<T>(&mut self) -> (r: Result<u32, IoError>)
        ensures match r { Ok(v) => old(self)@.len() >= 4, Err(_) => old(self)@.len() < 4 }
    { unimplemented!() }
}

#[verifier::external_body]
pub fn abort() -> ! { std::process::abort() }

#[verifier::external_body]
pub fn map_index<'a>(m: &'a HashMap<Tag, Vec<u8>>, k: &Tag) -> (r: &'a Vec<u8>)
    ensures m@.contains_key(*k), *r == m@[*k]
{ &m[k] }

pub trait OrAbort<T> { fn unwrap_or_abort(self) -> T; }
impl<T, E> OrAbort<T> for Result<T, E> {
    #[verifier::external_body]
    fn unwrap_or_abort(self) -> (r: T)
        ensures self is Ok, r == self->Ok_0
    { match self { Ok(v) => v, Err(_) => std::process::abort() } }
}
impl<T> OrAbort<T> for Option<T> {
    #[verifier::external_body]
    fn unwrap_or_abort(self) -> (r: T)
        ensures self is Some, r == self->Some_0
    { match self { Some(v) => v, None => std::process::abort() } }
}

#[verifier::external_body]
pub fn extend_bytes(v: &mut Vec<u8>, e: &Vec<u8>) ensures final(v)@ == old(v)@ + e@ { v.extend(e) }

pub assume_specification [std::io::_print] (_0: std::fmt::Arguments<'_>);

struct ResponseHandler {
    pub_key: Option<Vec<u8>>,
    msg: HashMap<Tag, Vec<u8>>,
    srep: HashMap<Tag, Vec<u8>>,
    cert: HashMap<Tag, Vec<u8>>,
    dele: HashMap<Tag, Vec<u8>>,
}
struct ParsedResponse { verified: bool, midpoint: u64, radius: u32 }

#[verifier::external_body]
fn prefix_vec() -> (r: Vec<u8>) ensures r@ == dele_prefix() { unimplemented!() }

impl ResponseHandler {
    #[verifier::external_body]
    fn validate_sig(&self, public_key: &[u8], sig: &[u8], data: &[u8]) -> (r: bool)
        ensures r == ed_verify(public_key@, data@, sig@)
    { unimplemented!() }

    fn validate_dele(&self)
        requires self.pub_key is Some
        ensures self.cert@.contains_key(Tag::SIG) && self.cert@.contains_key(Tag::DELE)
            && ed_verify(self.pub_key.unwrap()@, dele_prefix() + self.cert@[Tag::DELE]@, self.cert@[Tag::SIG]@)
    {
        let pubk = self.pub_key.as_ref().unwrap_or_abort();
        let sig_value = map_index(&self.cert, &Tag::SIG);
        let mut cert_data = prefix_vec();
        extend_bytes(&mut cert_data, map_index(&self.cert, &Tag::DELE));

        if self.validate_sig(pubk, sig_value, &cert_data) {
            println!("Valid signature on DELE tag");
        } else {
            println!("INVALID signature on DELE tag, response may not be authentic");
        }
    }

    fn validate_midpoint(&self, midpoint: u64)
        ensures self.dele@.contains_key(Tag::MINT) && self.dele@.contains_key(Tag::MAXT)
            && u64_le(self.dele@[Tag::MINT]@) <= midpoint <= u64_le(self.dele@[Tag::MAXT]@)
    {
        let mint = map_index(&self.dele, &Tag::MINT)
            .as_slice()
            .read_u64::<LittleEndian>()
            .unwrap_or_abort();
        let maxt = map_index(&self.dele, &Tag::MAXT)
            .as_slice()
            .read_u64::<LittleEndian>()
            .unwrap_or_abort();

        if !(midpoint >= mint) { abort() }
        if !(midpoint <= maxt) { abort() }
    }
}
}
fn main() {}
