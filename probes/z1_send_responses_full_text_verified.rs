use vstd::prelude::*;
use vstd::std_specs::iter::IteratorSpec;
verus! {
global size_of usize == 8;

// ================= imported contracts (proved in their own units) =================
#[derive(Debug, PartialEq, Eq, Clone, Copy)]
pub enum Version { Google, RfcDraft13 }
#[verifier::ext_equal]
pub struct SpecMsg { pub tags: Seq<u8>, pub values: Seq<Seq<u8>> }   // tags abbreviated to u8 codes in this probe
pub uninterp spec fn enc(m: SpecMsg) -> Seq<u8>;
pub uninterp spec fn framed(p: Seq<u8>) -> Seq<u8>;
pub uninterp spec fn le32(x: int) -> Seq<u8>;

pub struct RtMessage { pub g: Ghost<SpecMsg> }
#[derive(Debug)]
pub enum Error { Other }
impl RtMessage {
    pub open spec fn view(&self) -> SpecMsg { self.g@ }
    pub uninterp spec fn encodable(&self) -> bool;
    #[verifier::external_body]
    pub fn encode(&self) -> (r: Result<Vec<u8>, Error>)
        requires self.encodable()
        ensures r matches Ok(out) && out@ == enc(self.view())
    { unimplemented!() }
    #[verifier::external_body]
    pub fn encode_framed(&self) -> (r: Result<Vec<u8>, Error>)
        requires self.encodable()
        ensures r matches Ok(out) && out@ == framed(enc(self.view()))
    { unimplemented!() }
}

pub uninterp spec fn spec_root(leaves: Seq<Seq<u8>>) -> Seq<u8>;
pub uninterp spec fn spec_path(leaves: Seq<Seq<u8>>, i: int) -> Seq<u8>;
pub uninterp spec fn fin(v: Version, h: Seq<u8>) -> Seq<u8>;
pub struct MerkleTree { pub leaves: Ghost<Seq<Seq<u8>>>, pub built: Ghost<bool>, pub v: Ghost<Version> }
impl MerkleTree {
    #[verifier::external_body]
    pub fn compute_root(&mut self) -> (r: Vec<u8>)
        requires !old(self).built@, old(self).leaves@.len() >= 1, old(self).leaves@.len() <= 255
        ensures r@ == fin(old(self).v@, spec_root(old(self).leaves@)), r@.len() <= 64,
            final(self).built@, final(self).leaves@ == old(self).leaves@, final(self).v@ == old(self).v@
    { unimplemented!() }
    #[verifier::external_body]
    pub fn get_paths(&self, index: usize) -> (r: Vec<u8>)
        requires self.built@, index < self.leaves@.len()
        ensures r@ == spec_path(self.leaves@, index as int)
    { unimplemented!() }
}

pub struct SystemTime { pub secs: u64, pub nanos: u32 }
impl SystemTime {
    #[verifier::external_body]
    pub fn now() -> (r: SystemTime) ensures r.nanos < 1_000_000_000 { unimplemented!() }
}
pub uninterp spec fn signed_srep(seed: Seq<u8>, v: Version, now: SystemTime, root: Seq<u8>) -> SpecMsg;
pub struct OnlineKey { pub seed: Ghost<Seq<u8>> }
impl OnlineKey {
    #[verifier::external_body]
    pub fn make_srep(&mut self, version: Version, now: SystemTime, merkle_root: &[u8]) -> (r: RtMessage)
        requires merkle_root@.len() <= 64
        ensures r.view() == signed_srep(old(self).seed@, version, now, merkle_root@), final(self).seed@ == old(self).seed@
    { unimplemented!() }
}

#[verifier::external_type_specification]
#[verifier::external_body]
pub struct ExSocketAddr(std::net::SocketAddr);
#[verifier::external_type_specification]
#[verifier::external_body]
pub struct ExIpAddr(std::net::IpAddr);
pub assume_specification[std::net::SocketAddr::ip](a: &std::net::SocketAddr) -> (r: std::net::IpAddr);

pub struct IoError;
pub struct UdpSocket { pub sent: Ghost<Seq<(Seq<u8>, std::net::SocketAddr)>> }
impl UdpSocket {
    #[verifier::external_body]
    pub fn send_to(&mut self, buf: &[u8], target: &std::net::SocketAddr) -> (r: Result<usize, IoError>)
        ensures final(self).sent@ == old(self).sent@.push((buf@, *target)), r matches Ok(n) ==> n <= buf@.len()
    { unimplemented!() }
}
pub trait ServerStats {
    fn add_classic_response(&mut self, addr: &std::net::IpAddr, bytes_sent: usize);
    fn add_rfc_response(&mut self, addr: &std::net::IpAddr, bytes_sent: usize);
    fn add_failed_send_attempt(&mut self, addr: &std::net::IpAddr);
}
pub struct Grease { pub enabled: bool }
impl Grease {
    #[verifier::external_body]
    pub fn should_add_error(&mut self) -> (r: bool) ensures !old(self).enabled ==> !r, final(self).enabled == old(self).enabled { unimplemented!() }
    #[verifier::external_body]
    pub fn add_errors(&mut self, m: &RtMessage) -> (r: RtMessage)
        ensures r.encodable(), final(self).enabled == old(self).enabled { unimplemented!() }
}
pub fn enumerate<'a, T>(v: &'a Vec<T>) -> (r: std::vec::IntoIter<(usize, &'a T)>)
    ensures r.decrease() is Some, r.remaining().len() == v@.len(),
        forall|i: int| 0 <= i < v@.len() ==> (#[trigger] r.remaining()[i]).0 == i && *r.remaining()[i].1 == v@[i]
{
    let mut out: Vec<(usize, &T)> = Vec::new();
    let mut i: usize = 0;
    while i < v.len()
        invariant i <= v@.len(), out@.len() == i,
            forall|j: int| 0 <= j < i ==> (#[trigger] out@[j]).0 == j && *out@[j].1 == v@[j]
        decreases v@.len() - i
    { out.push((i, &v[i])); i += 1; }
    out.into_iter()
}
#[verifier::external_body]
pub fn log_eval<T>(t: T) {}
pub struct Hex;
impl Hex { #[verifier::external_body] pub fn encode(&self, b: &[u8]) -> String { String::new() } }
pub exec const HEX: Hex ensures true { Hex }
pub mod thread {
    use vstd::prelude::*;
    pub struct Thread;
    #[verifier::external_body] pub fn current() -> Thread { Thread }
    impl Thread { #[verifier::external_body] pub fn name(&self) -> (r: Option<&str>) ensures r is Some { None } }
}

pub open spec fn response_msg(srep: SpecMsg, nonce: Seq<u8>, path: Seq<u8>, cert: Seq<u8>, idx: int) -> SpecMsg {
    SpecMsg { tags: seq![0u8, 3, 5, 9, 13, 15], values: seq![srep.values[0], nonce, path, srep.values[1], cert, le32(idx)] }
}

// ================= responder.rs =================
pub struct Responder {
    version: Version,
    online_key: OnlineKey,
    long_term_public_key: String,
    cert_bytes: Vec<u8>,
    requests: Vec<(Vec<u8>, std::net::SocketAddr)>,
    merkle: MerkleTree,
    grease: Grease,
    thread_id: String,
}

pub open spec fn honest_batch(sent: Seq<(Seq<u8>, std::net::SocketAddr)>, base: int, v: Version, oseed: Seq<u8>,
    leaves: Seq<Seq<u8>>, reqs: Seq<(Vec<u8>, std::net::SocketAddr)>, cert: Seq<u8>, now: SystemTime) -> bool
{
    forall|i: int| 0 <= i < reqs.len() ==>
        (#[trigger] sent[base + i]).0 == wire(v, response_msg(signed_srep(oseed, v, now, fin(v, spec_root(leaves))),
            reqs[i].0@, spec_path(leaves, i), cert, i))
}
pub open spec fn wire(v: Version, m: SpecMsg) -> Seq<u8> { match v { Version::Google => enc(m), Version::RfcDraft13 => framed(enc(m)) } }

impl Responder {
    pub closed spec fn reqs(&self) -> Seq<(Vec<u8>, std::net::SocketAddr)> { self.requests@ }
    pub closed spec fn leaves(&self) -> Seq<Seq<u8>> { self.merkle.leaves@ }
    pub closed spec fn tree_built(&self) -> bool { self.merkle.built@ }
    pub closed spec fn tree_v(&self) -> Version { self.merkle.v@ }
    pub closed spec fn ver(&self) -> Version { self.version }
    pub closed spec fn grease_on(&self) -> bool { self.grease.enabled }
    pub closed spec fn cert(&self) -> Seq<u8> { self.cert_bytes@ }
    pub closed spec fn oseed(&self) -> Seq<u8> { self.online_key.seed@ }

    /// True if there are no requests queued
    pub fn is_empty(&self) -> (r: bool) ensures r == (self.reqs().len() == 0)
    {
        self.requests.is_empty()
    }

    #[verifier::external_body]
    fn make_response(&self, srep: &RtMessage, cert_bytes: &[u8], path: &[u8], idx: u32, nonce: &Vec<u8>) -> (r: RtMessage)
        ensures r.view() == response_msg(srep.view(), nonce@, path@, cert_bytes@, idx as int), r.encodable()
    { unimplemented!() }

    /// Send responses for all queued requests
    pub fn send_responses(&mut self, socket: &mut UdpSocket, stats: &mut Box<dyn ServerStats>)
        requires
            old(self).reqs().len() == old(self).leaves().len(), old(self).reqs().len() <= 255,
            !old(self).tree_built(), old(self).tree_v() == old(self).ver(),
            forall|i: int| 0 <= i < old(self).reqs().len() ==> (#[trigger] old(self).reqs()[i]).0@.len() >= 4,
        ensures
            final(socket).sent@.len() == old(socket).sent@.len() + old(self).reqs().len(),
            forall|i: int| 0 <= i < old(socket).sent@.len() ==> final(socket).sent@[i] == old(socket).sent@[i],
            forall|i: int| 0 <= i < old(self).reqs().len() ==>
                (#[trigger] final(socket).sent@[old(socket).sent@.len() + i]).1 == old(self).reqs()[i].1,
            // with fault injection off, every datagram is the honest response for request i
            !old(self).grease_on() ==> exists|now: SystemTime| #[trigger] honest_batch(final(socket).sent@, old(socket).sent@.len() as int,
                old(self).ver(), old(self).oseed(), old(self).leaves(), old(self).reqs(), old(self).cert(), now),
    {
        proof {
            let t0 = SystemTime { secs: 0, nanos: 0 };
            if self.reqs().len() == 0 {
                assert(honest_batch(socket.sent@, socket.sent@.len() as int, self.ver(), self.oseed(), self.leaves(), self.reqs(), self.cert(), t0));
            }
        }
        if self.is_empty() {
            return;
        }

        let merkle_root = self.merkle.compute_root();

        // The SREP tag is identical for each response
        let srep = self
            .online_key
            .make_srep(self.version, SystemTime::now(), &merkle_root);

        let ghost v = self.ver();
        let ghost root = fin(v, spec_root(self.leaves()));
        let ghost now0 = choose|t: SystemTime| srep.view() == signed_srep(old(self).oseed(), v, t, root);
        let ghost base = old(socket).sent@.len() as int;
        for (idx, (nonce, src_addr)) in it1: enumerate(&self.requests)
            invariant
                v == old(self).ver(), root == fin(v, spec_root(old(self).leaves())), base == old(socket).sent@.len(),
                srep.view() == signed_srep(old(self).oseed(), v, now0, root),
                self.reqs() == old(self).reqs(), self.leaves() == old(self).leaves(), self.tree_built(),
                self.ver() == v, self.cert() == old(self).cert(), self.grease_on() == old(self).grease_on(),
                self.reqs().len() == self.leaves().len(), self.reqs().len() <= 255,
                forall|i: int| 0 <= i < old(self).reqs().len() ==> (#[trigger] old(self).reqs()[i]).0@.len() >= 4,
                it1.seq().len() == old(self).reqs().len(),
                forall|i: int| 0 <= i < it1.seq().len() ==> (#[trigger] it1.seq()[i]).0 == i && *it1.seq()[i].1 == old(self).reqs()[i],
                socket.sent@.len() == base + it1.index(),
                forall|i: int| 0 <= i < base ==> socket.sent@[i] == old(socket).sent@[i],
                forall|i: int| 0 <= i < it1.index() ==> (#[trigger] socket.sent@[base + i]).1 == old(self).reqs()[i].1,
                !old(self).grease_on() ==> forall|i: int| 0 <= i < it1.index() ==>
                    (#[trigger] socket.sent@[base + i]).0 == wire(v, response_msg(signed_srep(old(self).oseed(), v, now0, root),
                        old(self).reqs()[i].0@, spec_path(old(self).leaves(), i), old(self).cert(), i)),
        {
            proof {
                let k = it1.index() as int;
                assert(it1.seq()[k].0 == k && *it1.seq()[k].1 == old(self).reqs()[k]);
                assert(old(self).reqs()[k].0@.len() >= 4);
            }
            let paths = self.merkle.get_paths(idx);
            let resp_msg = {
                let r = self.make_response(&srep, &self.cert_bytes, &paths, idx as u32, nonce);
                if self.grease.should_add_error() {
                    self.grease.add_errors(&r)
                } else {
                    r
                }
            };

            let resp_bytes = match self.version {
                Version::Google => resp_msg.encode().unwrap(),
                Version::RfcDraft13 => resp_msg.encode_framed().unwrap(),
            };

            let mut bytes_sent: usize = 0;
            let mut successful_send: bool = true;

            match socket.send_to(&resp_bytes, src_addr) {
                Ok(num_bytes) => bytes_sent = num_bytes,
                Err(_) => successful_send = false,
            }

            log_eval((
                thread::current().name().unwrap(),
                self.version,
                bytes_sent,
                src_addr,
                HEX.encode(&nonce[0..4]),
                idx + 1,
            ));

            if successful_send {
                match self.version {
                    Version::Google => stats.add_classic_response(&src_addr.ip(), bytes_sent),
                    Version::RfcDraft13 => stats.add_rfc_response(&src_addr.ip(), bytes_sent),
                }
            } else {
                stats.add_failed_send_attempt(&src_addr.ip());
            }
        }
        proof {
            if !old(self).grease_on() {
                assert(honest_batch(socket.sent@, base, v, old(self).oseed(), old(self).leaves(), old(self).reqs(), old(self).cert(), now0));
            }
        }
    }
}
}
fn main() {}
