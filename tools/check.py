#!/usr/bin/env python3
"""Runner: decides one property by contract-based deductive verification of /repo's current working tree.

usage: check.py <PROPERTY> [--tier quick|thorough] [--keep] [--repo /repo]

exit 0  every obligation of the property discharged (or matched by a known finding)
exit 1  VIOLATION property=<id> replay=<path>      (a contract obligation of the real code failed)
exit 2  undecided (lost anchor, unsupported construct, rlimit, tool failure) -- never a VIOLATION line
"""
import concurrent.futures as cf
import hashlib
import json
import os
import re
import shutil
import subprocess
import sys
import time

RLIMIT = float(os.environ.get("VERIF_RLIMIT", "30"))  # generous: undecided (rlimit) outcomes are machinery noise, never verdicts
VERIF = os.path.dirname(os.path.dirname(os.path.abspath(__file__)))
EXTRACTOR = os.path.join(VERIF, "tools/extractor/target/release/extractor")
CONTRACTS = os.path.join(VERIF, "contracts")

SEMANTIC = (
    "postcondition not satisfied",
    "precondition not satisfied",
    "invariant not satisfied",
    "assertion failed",
    "possible arithmetic underflow/overflow",
    "possible division by zero",
    "possible bit shift underflow/overflow",
    "decreases not satisfied",
    "could not prove termination",
    "unreachable",
    "index out of bounds",
    "possible truncation",
    "unable to prove post-condition of closure",
    "unable to prove pre-condition of closure",
    "unable to prove postcondition of closure",
    "unable to prove precondition of closure",
)


def log(*a):
    print(*a, file=sys.stderr, flush=True)


def load_json(p):
    with open(p) as f:
        return json.load(f)


def sh(cmd, cwd=None, timeout=None, env=None):
    t0 = time.time()
    try:
        p = subprocess.run(cmd, cwd=cwd, capture_output=True, text=True, timeout=timeout, env=env)
        return p.returncode, p.stdout, p.stderr, time.time() - t0
    except subprocess.TimeoutExpired as e:
        return 124, (e.stdout or b"").decode(errors="replace") if isinstance(e.stdout, bytes) else (e.stdout or ""), "TIMEOUT", time.time() - t0


# ------------------------------------------------------------------------------------------------
# one Verus unit
# ------------------------------------------------------------------------------------------------
def extract(unit, ucfg, repo, wdir, vacuity=False, ablate=False):
    out = os.path.join(wdir, unit + ("_vac" if vacuity else "") + ("_abl" if ablate else "") + ".rs")
    mp = out[:-3] + ".map.json"
    cmd = [EXTRACTOR, "--repo", repo, "--template", os.path.join(VERIF, ucfg["template"]), "--out", out, "--map", mp]
    if vacuity:
        cmd.append("--vacuity")
    if ablate:
        cmd.append("--ablate")
    rc, so, se, dt = sh(cmd)
    return rc, se.strip(), out, mp


def region_of(regions, line):
    best = None
    for r in regions:
        a, b = r["out_lines"]
        if a <= line <= b:
            if best is None or (b - a) < (best["out_lines"][1] - best["out_lines"][0]):
                best = r
    return best


def parse_air(path, regions, src_name):
    """count proof obligations ((location ...) goals) per function from the AIR log"""
    per_fn = {}
    if not os.path.exists(path):
        return per_fn
    cur = None
    want_span = False
    span_re = re.compile(re.escape(src_name) + r":(\d+):")
    with open(path, errors="replace") as f:
        for ln in f:
            if ln.startswith(";; Function-Def ") or ln.startswith(";; Function-Recommends ") or ln.startswith(";; Function-Specs ") or ln.startswith(";; Function-Axioms ") or ln.startswith(";; Function-Decl "):
                if ln.startswith(";; Function-Def "):
                    cur = ln[len(";; Function-Def "):].strip()
                    want_span = True
                    per_fn.setdefault(cur, {"goals": 0, "kinds": {}, "line": None, "queries": 0})
                    per_fn[cur]["queries"] += 1
                else:
                    cur = None
                continue
            if cur is None:
                continue
            if want_span and ln.startswith(";; "):
                m = span_re.search(ln)
                if m and per_fn[cur]["line"] is None:
                    per_fn[cur]["line"] = int(m.group(1))
                want_span = False
            s = ln.strip()
            if s.startswith("(location"):
                per_fn[cur]["goals"] += 1
                want_kind = True
                continue
            m = re.match(r'\("([^"]+)"\)', s)
            if m and per_fn[cur]["goals"] > 0:
                k = m.group(1)
                per_fn[cur]["kinds"][k] = per_fn[cur]["kinds"].get(k, 0) + 1
    return per_fn



class verus_slot:
    """Machine-wide cap on concurrently running Verus processes (each is a rustc + up to eight Z3 processes, 1-3 GB together).
    Without it, several checks started at the same time put 100+ of them on a 62 GB machine without swap; a front end that cannot
    allocate panics and the unit would come out undecided.  Slots are lock files created on demand."""
    N = int(os.environ.get("VERIF_MAX_VERUS", "10"))

    def __enter__(self):
        import fcntl
        d = os.environ.get("VERIF_SLOT_DIR", "/tmp/verif-verus-slots")
        os.makedirs(d, exist_ok=True)
        while True:
            for i in range(self.N):
                f = open(os.path.join(d, "slot-%d.lock" % i), "w")
                try:
                    fcntl.flock(f, fcntl.LOCK_EX | fcntl.LOCK_NB)
                    self.f = f
                    return self
                except OSError:
                    f.close()
            time.sleep(0.2)

    def __exit__(self, *a):
        import fcntl
        fcntl.flock(self.f, fcntl.LOCK_UN)
        self.f.close()
        return False

def run_verus(unit, src, wdir, tier, seed=None, rlimit=None, extra=None, log_air=True, multiple_errors=8):
    logdir = os.path.join(wdir, unit + ".log")
    shutil.rmtree(logdir, ignore_errors=True)
    cmd = ["verus", os.path.basename(src), "--output-json", "--time-expanded", "--error-format=json",
           "--multiple-errors", str(multiple_errors), "--num-threads", "8"]
    if log_air:
        cmd += ["--log", "air-final", "--log-dir", logdir]
    if rlimit:
        cmd += ["--rlimit", ("%g" % rlimit)]
    if seed is not None:
        cmd += ["--smt-option", "smt.random_seed=%d" % seed]
    if extra:
        cmd += extra
    with verus_slot():
        rc, so, se, dt = sh(cmd, cwd=wdir, timeout=1800)
    res = {"cmd": " ".join(cmd), "rc": rc, "wall_s": round(dt, 2), "diags": [], "json": None, "logdir": logdir, "raw_err": se}
    try:
        res["json"] = json.loads(so)
    except Exception:
        res["json"] = None
    for ln in se.splitlines():
        ln = ln.strip()
        if not ln.startswith("{"):
            continue
        try:
            d = json.loads(ln)
        except Exception:
            continue
        if d.get("$message_type") == "diagnostic":
            res["diags"].append(d)
    return res


def classify(diags, regions, src_name):
    """-> (semantic failures, undecided reasons).  Each failure: dict(message, line, region, clause, rendered)"""
    fails, und = [], []
    for d in diags:
        if d.get("level") != "error":
            continue
        msg = d.get("message", "")
        if msg.startswith("aborting due to"):
            continue
        spans = d.get("spans", [])
        prim = [s for s in spans if s.get("is_primary") and s.get("file_name", "").endswith(src_name)]
        other = [s for s in spans if not s.get("is_primary") and s.get("file_name", "").endswith(src_name)]
        line = prim[0]["line_start"] if prim else (other[0]["line_start"] if other else None)
        sem = any(msg.startswith(p) for p in SEMANTIC)
        if not sem:
            und.append({"message": msg, "line": line, "rendered": d.get("rendered", "")[:2000]})
            continue
        # attribute: the region that contains the primary span; if the primary span is outside every region
        # (e.g. a failed precondition is reported at the call site = primary, fine) fall back to secondary spans
        reg = region_of(regions, line) if line else None
        if reg is None:
            for s in other:
                reg = region_of(regions, s["line_start"])
                if reg:
                    break
        clause = None
        for s in spans:
            if s.get("label") and s.get("text"):
                clause = (s["label"], " ".join(t["text"].strip() for t in s["text"])[:300])
        ptxt = " ".join(t["text"].strip() for t in prim[0]["text"])[:300] if prim and prim[0].get("text") else None
        fails.append({"message": msg, "line": line, "region": reg["name"] if reg else None,
                      "region_kind": reg["kind"] if reg else None,
                      "props": reg.get("props", []) if reg else [], "mode": reg.get("mode") if reg else None,
                      "repo_file": reg.get("repo_file") if reg else None, "repo_lines": reg.get("repo_lines") if reg else None,
                      "at": ptxt, "clause": clause, "rendered": d.get("rendered", "")[:4000]})
    return fails, und




def ablation_pass(unit, ucfg, repo, wdir, tier, regions, und, src=None):
    """Fallback for functions whose full query ran into the resource limit: verify the "body obligations only" variant
    (extractor --ablate: every end-of-loop / end-of-function proof block is replaced by assume(false)).  Every obligation of
    that variant is an obligation of the real function under the same assumptions (loop invariant at the head, path
    conditions, the hints in front of it), so a failure found there is a genuine failed obligation; a pass decides nothing."""
    targets = {}
    for u in und:
        if "Resource limit" in u.get("message", "") and u.get("line"):
            reg = region_of(regions, u["line"])
            if reg and reg["kind"] == "fn" and reg.get("mode") == "prove":
                targets[reg["name"]] = reg
    if not targets:
        return [], und, []
    rc, err, asrc, amp = extract(unit, ucfg, repo, wdir, ablate=True)
    if rc != 0:
        return [], und, []
    aregions = load_json(amp)["regions"]
    found, decided, notes = [], set(), []
    for name in targets:
        vs = run_verus("%s_abl_%s" % (unit, re.sub(r"\W", "_", name))[:80], asrc, wdir, tier, None, RLIMIT,
                       ["--verify-root", "--verify-function", name.split("@")[-1]], False)
        f2, u2 = classify(vs["diags"], aregions, os.path.basename(asrc))
        mine = [x for x in f2 if x["region"] == name]
        if mine:
            for x in mine:
                x["found_by"] = "body-obligations-only pass (the full query hit the resource limit)"
                x["confirmed"] = True
            found += mine
            decided.add(name)
            notes.append({"function": name, "note": "full query: resource limit; body-only variant: %d failed obligation(s)" % len(mine)})
        else:
            # last resort: the full function once more, on its own, with three times the budget.  A success is a complete proof.
            ok = False
            if src is not None:
                vb = run_verus("%s_big_%s" % (unit, re.sub(r"\W", "_", name))[:80], src, wdir, tier, None, 3 * RLIMIT,
                               ["--verify-root", "--verify-function", name.split("@")[-1]], False)
                if vb["json"] is not None:
                    vr2 = vb["json"].get("verification-results", {})
                    f3, u3 = classify(vb["diags"], regions, os.path.basename(src))
                    ok = (not vr2.get("encountered-error")) and vr2.get("errors", 1) == 0 and vr2.get("verified", 0) > 0 and not f3 and not u3
            if ok:
                decided.add(name)
                notes.append({"function": name, "note": "whole-unit run: resource limit; verified on its own with 3x the budget (a complete proof)"})
            else:
                notes.append({"function": name, "note": "full query: resource limit; body-only variant decided nothing"})
    und2 = [u for u in und if not ("Resource limit" in u.get("message", "") and u.get("line") and (region_of(regions, u["line"]) or {}).get("name") in decided)]
    return found, und2, notes

def enclosing_fn_name(lines, line):
    """name of the function whose text contains `line` (1-based) in the assembled file"""
    for i in range(min(line, len(lines)) - 1, -1, -1):
        m = re.match(r"\s*(?:pub(?:\([a-z]+\))?\s+)?(?:(?:open|closed|uninterp|broadcast|proof|exec|spec|axiom|const|unsafe)\s+)*fn\s+(\w+)", lines[i])
        if m:
            return m.group(1)
    return None


def confirm_failures(unit, src, wdir, tier, regions, src_name, fails):
    with open(src) as f:
        lines = f.readlines()
    groups = {}
    for f_ in fails:
        key = f_["region"] or "(none)"
        groups.setdefault(key, []).append(f_)
    if len(groups) > 8:
        return fails, []          # wholesale breakage: not a flake, and not worth 16 more solver runs
    def pattern(regname, fl):
        reg = next((r for r in regions if r["name"] == regname), None)
        if reg and reg["kind"] == "fn":
            q = regname.split("@")[-1]
            return q
        nm = enclosing_fn_name(lines, fl[0]["line"] or 1)
        return ("*" + nm) if nm else None
    def rerun(regname, fl, k):
        pat = pattern(regname, fl)
        if not pat:
            return True
        sd = None if k == 0 else 7919 * k + 13
        vs = run_verus("%s_cf%d_%s" % (unit, k, re.sub(r"\W", "_", regname))[:80], src, wdir, tier, sd, RLIMIT, ["--verify-root", "--verify-function", pat], False)
        if vs["json"] is None:
            return True
        vres = vs["json"].get("verification-results", {})
        if vres.get("encountered-vir-error"):
            return True
        f2, u2 = classify(vs["diags"], regions, src_name)
        if any((x["region"] or "(none)") == regname for x in f2):
            return True                      # fails again
        if u2 or vres.get("encountered-error") or vres.get("errors", 1) != 0:
            return True                      # rlimit / front-end trouble in the re-run: keep the original verdict
        return vres.get("verified", 0) == 0  # nothing was verified (pattern matched nothing): keep
    keep, unstable = [], []
    with cf.ThreadPoolExecutor(max_workers=8) as ex:
        futs = {(rn, k): ex.submit(rerun, rn, fl, k) for rn, fl in groups.items() for k in (0, 1)}
        for rn, fl in groups.items():
            again = [futs[(rn, k)].result() for k in (0, 1)]
            if all(again):
                keep += fl
            else:
                unstable.append({"region": rn, "message": fl[0]["message"], "at": fl[0].get("at"),
                                 "note": "failed in the whole-unit run but VERIFIED when run on its own (seed runs: %s); not reported" % again})
    return keep, unstable

def do_unit(unit, ucfg, repo, wdir, tier, prop):
    t0 = time.time()
    R = {"unit": unit, "status": "ok", "undecided": [], "fails": [], "functions": [], "lemmas": [], "trusted": [], "wall_s": 0}
    rc, err, src, mp = extract(unit, ucfg, repo, wdir)
    if rc != 0:
        R["status"] = "undecided"
        R["undecided"].append({"message": "extractor: " + err})
        return R
    m = load_json(mp)
    regions = m["regions"]
    R["rules_fired"] = m.get("rules_fired", {})
    src_name = os.path.basename(src)
    # main pass and vacuity pass run concurrently (two verus processes)
    vac_rc, vac_err, vsrc, vmp = extract(unit, ucfg, repo, wdir, vacuity=True)
    with cf.ThreadPoolExecutor(max_workers=2) as ex2:
        fut_main = ex2.submit(run_verus, unit, src, wdir, tier, None, RLIMIT)
        fut_vac = ex2.submit(run_verus, unit + "_vac", vsrc, wdir, tier, None, RLIMIT, None, False, 12) if vac_rc == 0 else None
        vr = fut_main.result()
        vv = fut_vac.result() if fut_vac else None
    R["verus_cmd"] = vr["cmd"]
    R["verus_wall_s"] = vr["wall_s"]
    if vr["json"] is None:
        R["status"] = "undecided"
        R["undecided"].append({"message": "verus produced no JSON (rc=%s): %s" % (vr["rc"], vr["raw_err"][-1500:])})
        return R
    vres = vr["json"].get("verification-results", {})
    fails, und = classify(vr["diags"], regions, src_name)
    if "panicked at" in (vr.get("raw_err") or "") and "rust_verify" in (vr.get("raw_err") or ""):
        # the verifier itself crashed (seen once under memory exhaustion): whatever it reported is incomplete
        und.append({"message": "verus crashed (internal panic); results of this unit are incomplete: " + vr["raw_err"][-600:]})
    if vres.get("encountered-vir-error") or (not vres.get("success") and not fails and not und):
        und.append({"message": "verus front-end error (rc=%s): %s" % (vr["rc"], vr["raw_err"][-1500:])})
    # canaries: regions named mustfail_* contain lemmas that MUST NOT verify (e.g. `requires cr(v) ensures false`);
    # if one verifies, a hypothesis or an axiom set is contradictory and every proof in the unit is vacuous
    canaries = [r for r in regions if r["kind"] == "region" and r["name"].startswith("mustfail_")]
    hit = set(f["region"] for f in fails if f["region"] and f["region"].startswith("mustfail_"))
    fails = [f for f in fails if not (f["region"] or "").startswith("mustfail_")]
    compiled = not any(not str(x.get("message", "")).startswith(("function body check", "while loop", "for loop", "loop")) for x in und)
    for c in canaries:
        if c["name"] not in hit and c.get("mode") != "assume" and compiled:   # (a unit that did not compile checked no canary)
            und.append({"message": "vacuity canary %s was PROVED: hypotheses/axioms are contradictory" % c["name"]})
    R["canaries"] = {"expected_to_fail": [c["name"] for c in canaries], "failed_as_expected": sorted(hit)}
    # confirmation re-runs.  A failed obligation is reported only if the function fails AGAIN when verified on its own
    # (fresh solver process, `--verify-function`) under the default seed and under one more seed.  Any successful run is a
    # complete proof of the same verification condition, so dropping a failure that does not reproduce is sound; it removes
    # the flakiness of borderline queries whose outcome depends on what the shared solver process did before them.
    if fails:
        fails, R["unstable"] = confirm_failures(unit, src, wdir, tier, regions, src_name, fails)
    # functions that ran into the resource limit: try the body-obligations-only variant
    extra, und, R["rlimit_fallback"] = ablation_pass(unit, ucfg, repo, wdir, tier, regions, und, src)
    fails = fails + extra
    R["fails"] = fails
    R["undecided"] = und
    R["verified_items"] = vres.get("verified", 0)
    R["error_items"] = vres.get("errors", 0)
    # obligations per function from AIR
    # one AIR file per Verus module: the root module plus the (few) nested shim / binary-level modules
    air = {}
    import glob as _glob
    for af in sorted(_glob.glob(os.path.join(vr["logdir"], "*-final.air"))):
        for k, v in parse_air(af, regions, src_name).items():
            air[(os.path.basename(af), k) if k in air else k] = v
    # timing per function
    times = {}
    try:
        for mod in vr["json"]["times-ms"]["smt"]["smt-run-module-times"]:
            for fb in mod.get("function-breakdown", []):
                times[fb["function"]] = fb
    except Exception:
        pass
    R["smt_ms"] = vr["json"].get("times-ms", {}).get("smt", {}).get("smt-run")
    byreg = {}
    for fn, info in air.items():
        reg = region_of(regions, info["line"]) if info["line"] else None
        key = reg["name"] if reg else "(template/shim)"
        e = byreg.setdefault(key, {"name": key, "kind": reg["kind"] if reg else "shim", "props": reg.get("props", []) if reg else [],
                                   "mode": reg.get("mode") if reg else None, "goals": 0, "kinds": {}, "smt_ms": 0, "rlimit": 0, "air_fns": [],
                                   "repo_file": reg.get("repo_file") if reg else None, "repo_lines": reg.get("repo_lines") if reg else None,
                                   "src_fnv64": reg.get("src_fnv64") if reg else None})
        e["goals"] += info["goals"]
        for k, v in info["kinds"].items():
            e["kinds"][k] = e["kinds"].get(k, 0) + v
        e["air_fns"].append(fn)
        tb = times.get(fn)
        if tb:
            e["smt_ms"] += tb.get("time", 0)
            e["rlimit"] = max(e["rlimit"], tb.get("rlimit", 0))
    R["by_region"] = list(byreg.values())
    R["regions"] = regions
    # trusted-base scan of the assembled file
    trusted = []
    with open(src) as f:
        lines = f.readlines()
    for i, ln in enumerate(lines):
        s = ln.strip()
        for kw in ("external_body", "assume_specification", "axiom fn", "admit()", "assume(", "#[verifier::external", "global size_of"):
            if kw in s and not s.startswith("//"):
                # describe by the next fn/line
                desc = s
                if kw in ("external_body", "#[verifier::external"):
                    for j in range(i, min(i + 10, len(lines))):
                        mm = re.search(r"\b(fn|const|static|struct)\s+(\w+)", lines[j])
                        if mm:
                            desc = "external_body %s %s" % (mm.group(1), mm.group(2))
                            break
                reg = region_of(regions, i + 1)
                if reg and reg["kind"] == "fn" and reg.get("mode") == "assume":
                    desc = "assumed contract of %s (proved in its own unit)" % reg["name"]
                trusted.append(desc[:160])
                break
    R["trusted"] = sorted(set(trusted))
    # vacuity pass
    if vac_rc != 0:
        R["undecided"].append({"message": "extractor(vacuity): " + vac_err})
    else:
        vm = load_json(vmp)
        probes = vm.get("vacuity_probes", [])
        hit = set()
        for d in vv["diags"]:
            if d.get("level") == "error" and d.get("message", "").startswith("assertion failed"):
                for sp in d.get("spans", []):
                    if sp.get("is_primary"):
                        hit.add(sp["line_start"])
        missing = [p for p in probes if p["line"] not in hit]
        R["vacuity"] = {"probes": len(probes), "reachable": len(probes) - len(missing),
                        "missing": [p["what"] for p in missing], "wall_s": vv["wall_s"]}
        front_end_trouble = any(not str(x.get("message", "")).startswith(("vacuity", "function body check", "while loop", "for loop", "loop")) for x in R["undecided"])
        if missing and front_end_trouble:
            R["vacuity"]["note"] = "not evaluated: the unit did not get through the front end, so the probes were never checked"
        elif missing:
            # a probe that does not fail means a contradictory precondition / invariant (or an unreachable loop)
            # ... unless the solver gave up on that function: "could not prove false within the budget" is not "proved false".
            # Such probes are recorded as undetermined (evidence) and do not make the unit undecided; a probe that is missing
            # in a function the solver finished is a real vacuity finding.
            with open(vsrc) as f_:
                vlines = f_.readlines()
            rl_fns = set()
            for d in vv["diags"]:
                if "Resource limit" in str(d.get("message", "")):
                    for sp in d.get("spans", []):
                        if sp.get("is_primary"):
                            rl_fns.add(enclosing_fn_name(vlines, sp["line_start"]))
            undet = [p for p in missing if enclosing_fn_name(vlines, p["line"]) in rl_fns]
            proved = [p for p in missing if p not in undet]
            if undet:
                R["vacuity"]["undetermined_rlimit"] = [p["what"] for p in undet]
            if proved:
                R["undecided"].append({"message": "vacuity: assert(false) was PROVED at: " + "; ".join(p["what"] for p in proved)})
    if R["undecided"]:
        R["status"] = "undecided"
    # thorough tier: re-run the unit under two more Z3 seeds (derived from VERIF_SEED). A function that verifies under the
    # default seed but not under another is reported as UNSTABLE in the evidence; the verdict stays that of the default seed
    # (an unstable proof is a maintenance signal, never an alarm).
    if tier == "thorough" and R["status"] == "ok" and not R["fails"]:
        base = int(os.environ.get("VERIF_SEED", "0") or 0)
        R["seed_runs"] = []
        for k in (1, 2):
            sd = (base * 7919 + k * 104729) % 1000003 + 1
            vs = run_verus(unit + "_s%d" % k, src, wdir, tier, sd, RLIMIT, None, False)
            ok = bool(vs["json"]) and vs["json"].get("verification-results", {}).get("success", False)
            bad = [d.get("message", "")[:120] for d in vs["diags"] if d.get("level") == "error" and not d.get("message", "").startswith("aborting")]
            R["seed_runs"].append({"z3_random_seed": sd, "all_verified": ok, "wall_s": vs["wall_s"], "unstable": bad[:5]})
    R["wall_s"] = round(time.time() - t0, 2)
    return R


# ------------------------------------------------------------------------------------------------
# known findings
# ------------------------------------------------------------------------------------------------
def load_known():
    kf = []
    p = os.path.join(VERIF, "known-findings.txt")
    if os.path.exists(p):
        for ln in open(p):
            ln = ln.strip()
            if ln.startswith("finding:"):
                d = {"raw": ln}
                for k in ("property", "fn", "obligation"):
                    m = re.search(k + r"=(\S+)", ln)
                    d[k] = m.group(1) if m else None
                d["what"] = ln.split("—", 1)[1].strip() if "—" in ln else ln
                kf.append(d)
    return kf


def main():
    args = sys.argv[1:]
    if not args:
        print(__doc__)
        sys.exit(2)
    prop = args[0]
    tier = os.environ.get("VERIF_TIER", "quick")
    repo = "/repo"
    keep = False
    i = 1
    while i < len(args):
        if args[i] == "--tier":
            tier = args[i + 1]; i += 1
        elif args[i] == "--repo":
            repo = args[i + 1]; i += 1
        elif args[i] == "--keep":
            keep = True
        i += 1
    seed = int(os.environ.get("VERIF_SEED", "0") or 0)
    t0 = time.time()
    cfg = load_json(os.path.join(VERIF, "units.json"))
    pcfg = cfg["properties"].get(prop)
    if pcfg is None:
        log("property %s has no check (not applicable)" % prop)
        sys.exit(2)
    units = [u for u in pcfg["units"]]
    if tier == "thorough":
        units += [u for u in pcfg.get("thorough_units", []) if u not in units]
    wdir = os.path.join(VERIF, "work", prop + "-" + tier)
    if os.path.realpath(repo) != "/repo":
        # evaluation runs against scratch trees may run side by side for the same property
        import hashlib
        wdir += "-" + hashlib.sha1(os.path.realpath(repo).encode()).hexdigest()[:8]
    shutil.rmtree(wdir, ignore_errors=True)
    os.makedirs(wdir, exist_ok=True)
    results = []
    with cf.ThreadPoolExecutor(max_workers=4) as ex:
        futs = {ex.submit(do_unit, u, cfg["units"][u], repo, wdir, tier, prop): u for u in units}
        for f in cf.as_completed(futs):
            results.append(f.result())
    results.sort(key=lambda r: units.index(r["unit"]))

    # Kani tables (finite domains), when the property needs them
    kani_res = None
    klist = list(pcfg.get("kani") or [])
    if tier == "thorough":
        klist += [h for h in pcfg.get("kani_thorough", []) if h not in klist]
    if klist:
        import kani_tables
        kani_res = kani_tables.run(repo, klist, tier, os.path.join(VERIF, "work"))

    known = load_known()
    violations, known_hits, undecided, other_fail = [], [], [], []
    for r in results:
        for u in r["undecided"]:
            undecided.append({"unit": r["unit"], **u})
        for f in r["fails"]:
            if prop in f["props"] and f["mode"] != "assume":
                k = [x for x in known if x["property"] == prop and x["fn"] == f["region"] and (x["obligation"] is None or x["obligation"] in (f["message"].replace(" ", "_")))]
                if k:
                    known_hits.append((k[0], f))
                else:
                    violations.append({"unit": r["unit"], **f})
            elif f["region"] is None:
                undecided.append({"unit": r["unit"], "message": "obligation outside any /repo-derived region failed (machinery): " + f["message"], "line": f["line"], "rendered": f["rendered"]})
            else:
                other_fail.append({"unit": r["unit"], **f})
    if kani_res:
        for h in kani_res["harnesses"]:
            if h["status"] == "FAILED":
                violations.append({"unit": "kani", "message": "Kani harness %s FAILED" % h["name"], "region": h["name"], "props": [prop],
                                   "rendered": h.get("detail", ""), "counterexample": h.get("counterexample"), "counterexample_bytes": h.get("counterexample_bytes"),
                                   "native_replay": h.get("native_replay"), "at": h.get("what")})
            elif h["status"] != "SUCCESSFUL":
                undecided.append({"unit": "kani", "message": "Kani harness %s: %s" % (h["name"], h["status"]), "rendered": h.get("detail", "")})

    # obligations of this property
    fns, lemmas = [], []
    obligations = 0
    failed_goals = len(violations) + len(known_hits)
    samples = []
    smt_ms = 0
    for r in results:
        for e in r.get("by_region", []):
            if prop in e["props"] and e["mode"] != "assume":
                obligations += e["goals"]
                smt_ms += e["smt_ms"]
                rec = {"unit": r["unit"], "name": e["name"], "obligations": e["goals"], "kinds": e["kinds"], "smt_ms": e["smt_ms"], "rlimit": e["rlimit"], "backend": "Verus 0.2026.09.13 / Z3"}
                if e["kind"] == "fn":
                    rec["repo"] = "%s:%s-%s" % (e["repo_file"], e["repo_lines"][0], e["repo_lines"][1])
                    rec["src_fnv64"] = e["src_fnv64"]
                    fns.append(rec)
                else:
                    lemmas.append(rec)
    if kani_res:
        for h in kani_res["harnesses"]:
            obligations += h.get("checks", 0)
            if h["status"] == "FAILED":
                failed_goals += 0
            fns.append({"unit": "kani", "name": h["name"], "obligations": h.get("checks", 0), "backend": "Kani 0.68 / CBMC 6.11 + " + h.get("solver", "cadical"),
                        "what": h.get("what"), "wall_s": h.get("wall_s"), "complete": h.get("complete", True)})
    # sample obligations: contract clauses of the first functions
    for r in results:
        for reg in r.get("regions", []):
            if reg["kind"] == "fn" and prop in reg.get("props", []) and reg.get("mode") == "prove" and len(samples) < 3:
                try:
                    with open(os.path.join(wdir, r["unit"] + ".rs")) as f:
                        ls = f.readlines()
                    a, b = reg["out_lines"]
                    txt = "".join(ls[a:min(b, a + 14)])
                    samples.append({"function": reg["name"], "repo": "%s:%s" % (reg["repo_file"], reg["repo_lines"][0]), "assembled_head": txt})
                except Exception:
                    pass

    status = 0
    replay = None
    for k, f in known_hits:
        print("KNOWN-FINDING: property=%s %s" % (prop, k["what"]))
    if violations:
        status = 1
        os.makedirs(os.path.join(VERIF, "replay"), exist_ok=True)
        replay = os.path.join(VERIF, "replay", "%s-%s.json" % (prop, time.strftime("%Y%m%d-%H%M%S")))
        cex = any(v.get("counterexample") for v in violations)
        with open(replay, "w") as f:
            json.dump({"property": prop, "tier": tier, "failed_obligations": violations,
                       "note": "Verus reports failed obligations without a model; Kani failures carry a counterexample." if not cex else "counterexample from Kani included",
                       "other_failures_not_attributed_to_this_property": other_fail}, f, indent=1)
        for v in violations:
            log("FAILED OBLIGATION [%s] %s in %s (%s) -- %s" % (v["unit"], v["message"], v.get("region"), v.get("repo_file"), (v.get("clause") or ("", ""))[1] or v.get("at")))
        print("VIOLATION property=%s replay=%s%s" % (prop, replay, "" if cex else " no-failing-input-found"))
    elif undecided:
        status = 2
        for u in undecided:
            log("UNDECIDED [%s] %s" % (u.get("unit"), u.get("message")))
            if u.get("rendered"):
                log(u["rendered"])
    elif obligations == 0:
        status = 2
        log("UNDECIDED: zero obligations generated for %s" % prop)

    # thorough tier, unchanged tree only: contract-sensitivity probe.  Up to four of the property's single-site breaking edits from
    # tools/mutate.py are applied to scratch copies and the QUICK check is run on each; the outcome is recorded in the evidence
    # (how many the contracts notice).  Informational: it never changes this run's exit status.
    sensitivity = None
    if tier == "thorough" and status == 0 and os.path.realpath(repo) == "/repo" and os.environ.get("VERIF_NO_SENSITIVITY") != "1":
        try:
            import mutate as _mut
            picks = [m for m in _mut.M if m[1] == prop and m[5] == "break"][:4]
            sensitivity = []
            for (name, _p, fpath, old_t, new_t, _k) in picks:
                scr = "/tmp/verif-sens-%d" % os.getpid()
                shutil.rmtree(scr, ignore_errors=True)
                subprocess.run("mkdir -p %s && rsync -a --exclude target --exclude .git /repo/ %s/" % (scr, scr), shell=True)
                fp = os.path.join(scr, fpath)
                txt = open(fp).read()
                if old_t not in txt:
                    sensitivity.append({"edit": name, "verdict": "pattern-not-found"})
                    shutil.rmtree(scr, ignore_errors=True)
                    continue
                open(fp, "w").write(txt.replace(old_t, new_t, 1))
                q = subprocess.run([os.path.join(VERIF, "check"), prop, "--repo", scr, "--tier", "quick"], capture_output=True, text=True,
                                   env=dict(os.environ, VERIF_TIER="quick", VERIF_NO_SENSITIVITY="1"))
                first = [l for l in (q.stdout + "\n" + q.stderr).splitlines() if l.startswith(("FAILED OBLIGATION", "UNDECIDED"))][:1]
                sensitivity.append({"edit": name, "file": fpath, "verdict": {1: "reported", 2: "undecided", 0: "NOT NOTICED"}.get(q.returncode, "rc=%d" % q.returncode),
                                    "first": (first[0][:200] if first else "")})
                shutil.rmtree(scr, ignore_errors=True)
        except Exception as e:  # never let the probe disturb the verdict
            sensitivity = [{"error": str(e)[:200]}]

    trusted = sorted(set(t for r in results for t in r.get("trusted", [])))
    if kani_res:
        trusted += kani_res.get("trusted", [])
    ev = {
        "property_id": prop, "tier": tier, "seed": seed, "level": pcfg.get("level", "proof"),
        "coverage": {
            "obligations": obligations, "discharged": max(0, obligations - failed_goals),
            "checker_cmd": "; ".join(r.get("verus_cmd", "") for r in results) + ("; " + kani_res["cmd"] if kani_res else ""),
            "trusted_base": trusted,
            "functions_under_contract": fns,
            "lemmas": lemmas,
            "samples": samples,
            "rewrite_rules_fired": {r["unit"]: r.get("rules_fired", {}) for r in results},
            "vacuity": {r["unit"]: r.get("vacuity") for r in results},
            "contract_sensitivity_probe": sensitivity,
            "vacuity_canaries": {r["unit"]: r.get("canaries") for r in results},
            "units": [{"unit": r["unit"], "status": r["status"], "verified_items": r.get("verified_items"), "wall_s": r["wall_s"], "smt_ms": r.get("smt_ms"), "extra_z3_seeds": r.get("seed_runs"), "unstable_not_reported": r.get("unstable") or [], "rlimit_fallback": r.get("rlimit_fallback") or []} for r in results],
            "slow_functions_over_5s": [f["name"] for f in fns if f.get("smt_ms", 0) and f["smt_ms"] > 5000],
            "smt_ms_property_functions": smt_ms,
            "kani": kani_res,
            "verdict": {0: "all obligations discharged", 1: "violation", 2: "undecided"}[status],
            "known_findings_matched": [k["raw"] for k, _ in known_hits],
            "failed_obligations": [{k: v.get(k) for k in ("unit", "message", "region", "repo_file", "repo_lines", "clause", "at")} for v in violations],
            "undecided": [{k: u.get(k) for k in ("unit", "message")} for u in undecided],
            "explanation": pcfg.get("explanation", ""),
            "repo_tree": repo,
        },
        "assumptions": pcfg.get("assumptions", []) + ["every entry of coverage.trusted_base", "machine integers are Rust's (overflow is an obligation, not ignored); usize is 64-bit"],
        "wall_s": round(time.time() - t0, 2),
        "violations": len(violations),
    }
    # runs against a scratch tree (mutation testing) never touch the committed evidence directory
    evdir = os.path.join(VERIF, "evidence") if os.path.realpath(repo) == "/repo" else os.path.join(VERIF, "work", "evidence-scratch")
    os.makedirs(evdir, exist_ok=True)
    with open(os.path.join(evdir, prop + ".json"), "w") as f:
        json.dump(ev, f, indent=1)
    if not keep and (status == 0 or os.path.realpath(repo) != "/repo"):
        shutil.rmtree(wdir, ignore_errors=True)     # (scratch-tree runs never keep their work directory: they would pile up)
    log("%s: %s (%d obligations, %d functions, %d lemmas, %.1fs)" % (prop, ev["coverage"]["verdict"], obligations, len(fns), len(lemmas), time.time() - t0))
    sys.exit(status)


if __name__ == "__main__":
    sys.path.insert(0, os.path.dirname(os.path.abspath(__file__)))
    main()
