#!/bin/sh
# Regression of the false alarms corrected in DESIGN 8.3: every one of these property-preserving patches must be free of
# VIOLATIONs (exit 0 or 2 per check).  usage: tools/harmless_regress.sh      (about 30-40 min; HARM_PAR=n to run n side by side)
cd "$(dirname "$0")/.."
python3 tools/harmless_eval.py seeded/harmless s1_1 s1_6 s2_1 s2_2 s5_1 s5_3 s5_7 s6_4 s7_5 s7_6 s8_1 s8_3 s11_6 s12_6 s13_3 s14_2 s15_8 s16_1 | tee work/harmless_regress.log
if grep -q "': 1" work/harmless_regress.log; then echo "FALSE ALARM(S) above"; exit 1; fi
echo "no false alarm"
