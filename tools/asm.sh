#!/bin/sh
# usage: tools/asm.sh <unit>   -- assemble a unit into work/<unit>.rs and run verus on it (developer loop)
U=$1; shift
cd /verif && tools/extractor/target/release/extractor --template contracts/unit_$U.vt --out work/$U.rs --map work/$U.map.json && cd work && verus $U.rs "$@" 2>&1
