use vstd::prelude::*;
use vstd::std_specs::iter::IteratorSpec;
use vstd::std_specs::cmp::*;
use core::cmp::Ordering;
verus! {
global size_of usize == 8;

// ---------- spec side ----------
#[derive(Debug, PartialEq, Eq, PartialOrd, Clone, Copy)]
pub enum Tag { SIG, VER, NONC, PAD }

pub open spec fn ord_of(a: int, b: int) -> Ordering {
    if a < b { Ordering::Less } else if a == b { Ordering::Equal } else { Ordering::Greater }
}


pub open spec fn tag_rank(t: Tag) -> int {
    match t { Tag::SIG => 0, Tag::VER => 1, Tag::NONC => 2, Tag::PAD => 3 }
}
pub uninterp spec fn wire_of(t: Tag) -> Seq<u8>;
pub uninterp spec fn known_wire(w: Seq<u8>) -> Option<Tag>;

pub open spec fn u32_le(s: Seq<u8>, i: int) -> int {
    s[i] as int + 256 * (s[i+1] as int) + 65536 * (s[i+2] as int) + 16777216 * (s[i+3] as int)
}

pub enum Error {
    TagNotStrictlyIncreasing(Tag),
    InvalidTag,
    InvalidNumTags(u32),
    InvalidValueLength(Tag, u32),
    EncodingFailure(String),
    InvalidAlignment(u32),
    InvalidOffsetValue(u32),
    MessageTooShort,
}

pub struct IoError;
impl vstd::std_specs::convert::FromSpecImpl<IoError> for Error {
    open spec fn obeys_from_spec() -> bool { false }
    open spec fn from_spec(v: IoError) -> Self { Error::MessageTooShort }
}
impl From<IoError> for Error {
    fn from(err: IoError) -> Self { Error::EncodingFailure(String::new()) }
}

pub assume_specification<T: Clone> [<[T]>::to_vec] (s: &[T]) -> (r: Vec<T>)
    ensures r@ == s@;

pub struct LittleEndian;

pub struct Cursor<T> { pub inner: T, pub pos: u64 }

impl<'a> Cursor<&'a [u8]> {
    pub fn new(inner: &'a [u8]) -> (c: Self)
        ensures c.inner@ == inner@, c.pos == 0
    { Cursor { inner, pos: 0 } }

    pub fn position(&self) -> (p: u64) ensures p == self.pos { self.pos }

    pub fn set_position(&mut self, p: u64)
        ensures final(self).pos == p, final(self).inner@ == old(self).inner@
    { self.pos = p; }

    #[verifier::external_body]
    pub fn read_u32<T>(&mut self) -> (r: Result<u32, IoError>)
        ensures
            final(self).inner@ == old(self).inner@,
            match r {
                Ok(v) => old(self).pos + 4 <= old(self).inner@.len() && final(self).pos == old(self).pos + 4
                    && v as int == u32_le(old(self).inner@, old(self).pos as int),
                Err(_) => old(self).pos + 4 > old(self).inner@.len(),
            }
    { unimplemented!() }

    #[verifier::external_body]
    pub fn read_to_end(&mut self, buf: &mut Vec<u8>) -> (r: Result<usize, IoError>)
        ensures
            final(self).inner@ == old(self).inner@,
            r is Ok,
            old(self).pos <= old(self).inner@.len() ==> final(buf)@ == old(buf)@ + old(self).inner@.subrange(old(self).pos as int, old(self).inner@.len() as int),
            old(self).pos > old(self).inner@.len() ==> final(buf)@ == old(buf)@,
    { unimplemented!() }

    #[verifier::external_body]
    pub fn read_exact(&mut self, buf: &mut [u8]) -> (r: Result<(), IoError>)
        ensures
            final(self).inner@ == old(self).inner@,
            final(buf)@.len() == old(buf)@.len(),
            match r {
                Ok(_) => old(self).pos + old(buf)@.len() <= old(self).inner@.len()
                    && final(self).pos == old(self).pos + old(buf)@.len()
                    && final(buf)@ == old(self).inner@.subrange(old(self).pos as int, old(self).pos + old(buf)@.len()),
                Err(_) => old(self).pos + old(buf)@.len() > old(self).inner@.len(),
            }
    { unimplemented!() }
}

impl Tag {
    #[verifier::external_body]
    pub fn wire_value(&self) -> (r: &'static [u8]) ensures r@ == wire_of(*self) { unimplemented!() }
    #[verifier::external_body]
    pub fn from_wire(bytes: &[u8]) -> (r: Result<Tag, Error>)
        ensures match r { Ok(t) => known_wire(bytes@) == Some(t), Err(_) => known_wire(bytes@) is None }
    { unimplemented!() }
}


pub mod axioms {
use vstd::prelude::*;
use vstd::std_specs::cmp::*;
use super::*;
pub broadcast axiom fn tag_derive_eq(a: Tag, b: Tag)
    ensures
        <Tag as PartialEqSpec<Tag>>::obeys_eq_spec(),
        #[trigger] a.eq_spec(&b) == (a == b);
pub broadcast axiom fn tag_derive_ord(a: Tag, b: Tag)
    ensures
        <Tag as PartialOrdSpec<Tag>>::obeys_partial_cmp_spec(),
        #[trigger] a.partial_cmp_spec(&b) == Some(ord_of(tag_rank(a), tag_rank(b)));
pub broadcast group tag_derive { tag_derive_eq, tag_derive_ord }
}
// ---------- reference format spec ----------
#[verifier::ext_equal]
pub struct SpecMsg { pub tags: Seq<Tag>, pub values: Seq<Seq<u8>> }

pub open spec fn strictly_inc(tags: Seq<Tag>) -> bool {
    forall|i: int, j: int| #![trigger tags[i], tags[j]] 0 <= i < j < tags.len() ==> tag_rank(tags[i]) < tag_rank(tags[j])
}

// offset of value i relative to header end (i in 0..=n); off(0)=0, off(n)=len-header
pub open spec fn hdr_len(n: int) -> int { if n == 0 { 4 } else { 4 + 4 * (n - 1) + 4 * n } }

pub open spec fn off(b: Seq<u8>, n: int, i: int) -> int {
    if i <= 0 { 0 } else if i >= n { b.len() - hdr_len(n) } else { u32_le(b, 4 + 4 * (i - 1)) }
}

pub open spec fn tag_at(b: Seq<u8>, n: int, i: int) -> Option<Tag> {
    known_wire(b.subrange(4 + 4 * (n - 1) + 4 * i, 4 + 4 * (n - 1) + 4 * i + 4))
}

// the reference acceptance predicate for n >= 1
pub open spec fn ref_accepts_n(b: Seq<u8>, n: int) -> bool {
    &&& hdr_len(n) <= b.len()
    &&& forall|i: int| 0 <= i < n ==> (#[trigger] tag_at(b, n, i)) is Some
    &&& forall|i: int, j: int| #![trigger tag_at(b, n, i), tag_at(b, n, j)] 0 <= i < j < n ==> tag_rank(tag_at(b, n, i).unwrap()) < tag_rank(tag_at(b, n, j).unwrap())
    &&& forall|i: int| 1 <= i < n ==> (#[trigger] off(b, n, i)) % 4 == 0
    &&& forall|i: int| 0 <= i < n ==> off(b, n, i) <= #[trigger] off(b, n, i + 1)
}

pub open spec fn ref_decode_n(b: Seq<u8>, n: int) -> SpecMsg {
    SpecMsg {
        tags: Seq::new(n as nat, |i: int| tag_at(b, n, i).unwrap()),
        values: Seq::new(n as nat, |i: int| b.subrange(hdr_len(n) + off(b, n, i), hdr_len(n) + off(b, n, i + 1))),
    }
}


// ---- iterator shims (rewrite rules R2/R3) ----

pub axiom fn axiom_slice_len(s: &[u8]) ensures s@.len() <= isize::MAX;

pub proof fn lemma_rank_lower(b: Seq<u8>, n: int, i: int)
    requires ref_accepts_n(b, n), 0 <= i < n
    ensures tag_rank(tag_at(b, n, i).unwrap()) >= i
    decreases i
{
    if i > 0 {
        lemma_rank_lower(b, n, i - 1);
        assert(tag_at(b, n, i - 1) is Some);
        assert(tag_at(b, n, i) is Some);
    } else {
        assert(tag_at(b, n, 0) is Some);
    }
}
pub proof fn lemma_at_most_all_tags(b: Seq<u8>, n: int)
    requires ref_accepts_n(b, n), n >= 1
    ensures n <= 4   // 18 in the real table
{
    lemma_rank_lower(b, n, n - 1);
}

pub open spec fn ref_accepts(b: Seq<u8>) -> bool {
    &&& b.len() >= 4
    &&& b.len() % 4 == 0
    &&& (u32_le(b, 0) == 0 || ref_accepts_n(b, u32_le(b, 0)))
}
pub open spec fn ref_decode(b: Seq<u8>) -> SpecMsg {
    if u32_le(b, 0) == 0 { SpecMsg { tags: Seq::empty(), values: Seq::empty() } } else { ref_decode_n(b, u32_le(b, 0)) }
}


// ---------------- encoder spec ----------------
pub open spec fn le32(x: int) -> Seq<u8> {
    seq![(x % 256) as u8, ((x / 256) % 256) as u8, ((x / 65536) % 256) as u8, ((x / 16777216) % 256) as u8]
}
pub open spec fn pre(vals: Seq<Seq<u8>>, i: int) -> int
    decreases i
{ if i <= 0 { 0 } else { pre(vals, i - 1) + vals[i - 1].len() } }
pub open spec fn offs_bytes(vals: Seq<Seq<u8>>, k: int) -> Seq<u8>
    decreases k
{ if k <= 0 { Seq::empty() } else { offs_bytes(vals, k - 1) + le32(pre(vals, k)) } }
pub open spec fn tags_bytes(tags: Seq<Tag>, k: int) -> Seq<u8>
    decreases k
{ if k <= 0 { Seq::empty() } else { tags_bytes(tags, k - 1) + wire_of(tags[k - 1]) } }
pub open spec fn vals_bytes(vals: Seq<Seq<u8>>, k: int) -> Seq<u8>
    decreases k
{ if k <= 0 { Seq::empty() } else { vals_bytes(vals, k - 1) + vals[k - 1] } }
pub open spec fn enc(m: SpecMsg) -> Seq<u8> {
    let n = m.tags.len() as int;
    le32(n) + offs_bytes(m.values, n - 1) + tags_bytes(m.tags, n) + vals_bytes(m.values, n)
}
pub broadcast axiom fn wire_len(t: Tag) ensures #[trigger] wire_of(t).len() == 4;

pub proof fn lemma_pre_mono(vals: Seq<Seq<u8>>, i: int, j: int)
    requires 0 <= i <= j
    ensures 0 <= pre(vals, i) <= pre(vals, j)
    decreases j
{
    if j > 0 { if i < j { lemma_pre_mono(vals, i, j - 1); } else { lemma_pre_mono(vals, i - 1, j - 1); } }
}

pub proof fn lemma_lens(m: SpecMsg, k: int)
    requires 0 <= k <= m.tags.len(), m.tags.len() == m.values.len()
    ensures offs_bytes(m.values, k).len() == 4 * k, tags_bytes(m.tags, k).len() == 4 * k,
        vals_bytes(m.values, k).len() == pre(m.values, k), pre(m.values, k) >= 0
    decreases k
{
    broadcast use wire_len;
    if k > 0 { lemma_lens(m, k - 1); }
}

pub struct VecWriteShim;
pub trait WriteBytesExt { fn write_u32<T>(&mut self, x: u32) -> Result<(), IoError>; }
impl WriteBytesExt for Vec<u8> {
    #[verifier::external_body]
    fn write_u32<T>(&mut self, x: u32) -> (r: Result<(), IoError>)
        ensures r is Ok, final(self)@ == old(self)@ + le32(x as int)
    { unimplemented!() }
}
pub trait Write { fn write_all(&mut self, b: &[u8]) -> Result<(), IoError>; }
impl Write for Vec<u8> {
    #[verifier::external_body]
    fn write_all(&mut self, b: &[u8]) -> (r: Result<(), IoError>)
        ensures r is Ok, final(self)@ == old(self)@ + b@
    { unimplemented!() }
}
#[verifier::external_body]
pub fn sum_lens(v: &Vec<Vec<u8>>) -> (r: usize)
    requires pre(Seq::new(v@.len(), |i: int| v@[i]@), v@.len() as int) <= usize::MAX
    ensures r == pre(Seq::new(v@.len(), |i: int| v@[i]@), v@.len() as int)
{ v.iter().map(|x| x.len()).sum() }


// ---------------- codec lemmas ----------------
pub broadcast axiom fn known_wire_inverse(t: Tag) ensures #[trigger] known_wire(wire_of(t)) == Some(t);
pub broadcast axiom fn wire_of_known(w: Seq<u8>) ensures (#[trigger] known_wire(w)) matches Some(t) ==> wire_of(t) == w;

pub proof fn lemma_le32_roundtrip(x: int)
    requires 0 <= x < 0x1_0000_0000
    ensures u32_le(le32(x), 0) == x, le32(x).len() == 4
{
    assert(x % 256 + 256 * ((x / 256) % 256) + 65536 * ((x / 65536) % 256) + 16777216 * ((x / 16777216) % 256) == x) by (nonlinear_arith)
        requires 0 <= x < 0x1_0000_0000;
}

pub proof fn lemma_le32_of_u32le(s: Seq<u8>, i: int)
    requires 0 <= i, i + 4 <= s.len()
    ensures le32(u32_le(s, i)) =~= s.subrange(i, i + 4)
{
    let a = s[i] as int; let b = s[i + 1] as int; let c = s[i + 2] as int; let d = s[i + 3] as int;
    let x = a + 256 * b + 65536 * c + 16777216 * d;
    assert(x % 256 == a && (x / 256) % 256 == b && (x / 65536) % 256 == c && (x / 16777216) % 256 == d) by (nonlinear_arith)
        requires 0 <= a < 256, 0 <= b < 256, 0 <= c < 256, 0 <= d < 256, x == a + 256 * b + 65536 * c + 16777216 * d;
}

pub proof fn lemma_offs_at(vals: Seq<Seq<u8>>, k: int, i: int)
    requires 1 <= i <= k
    ensures offs_bytes(vals, k).len() == 4 * k, offs_bytes(vals, k).subrange(4 * (i - 1), 4 * i) =~= le32(pre(vals, i))
    decreases k
{
    lemma_offs_len(vals, k);
    lemma_offs_len(vals, k - 1);
    if i < k { lemma_offs_at(vals, k - 1, i); }
}
pub proof fn lemma_offs_len(vals: Seq<Seq<u8>>, k: int)
    requires 0 <= k
    ensures offs_bytes(vals, k).len() == 4 * k
    decreases k
{ if k > 0 { lemma_offs_len(vals, k - 1); } }

pub proof fn lemma_tags_len(tags: Seq<Tag>, k: int)
    requires 0 <= k <= tags.len()
    ensures tags_bytes(tags, k).len() == 4 * k
    decreases k
{ broadcast use wire_len; if k > 0 { lemma_tags_len(tags, k - 1); } }
pub proof fn lemma_tags_at(tags: Seq<Tag>, k: int, i: int)
    requires 0 <= i < k <= tags.len()
    ensures tags_bytes(tags, k).subrange(4 * i, 4 * i + 4) =~= wire_of(tags[i])
    decreases k
{
    broadcast use wire_len;
    lemma_tags_len(tags, k); lemma_tags_len(tags, k - 1);
    if i < k - 1 { lemma_tags_at(tags, k - 1, i); }
}
pub proof fn lemma_vals_len(vals: Seq<Seq<u8>>, k: int)
    requires 0 <= k <= vals.len()
    ensures vals_bytes(vals, k).len() == pre(vals, k), pre(vals, k) >= 0
    decreases k
{ if k > 0 { lemma_vals_len(vals, k - 1); } }
pub proof fn lemma_vals_at(vals: Seq<Seq<u8>>, k: int, i: int)
    requires 0 <= i < k <= vals.len()
    ensures vals_bytes(vals, k).subrange(pre(vals, i), pre(vals, i + 1)) =~= vals[i]
    decreases k
{
    lemma_vals_len(vals, k); lemma_vals_len(vals, k - 1); lemma_vals_len(vals, i); lemma_vals_len(vals, i + 1);
    lemma_pre_mono(vals, i + 1, k);
    if i < k - 1 { lemma_vals_at(vals, k - 1, i); lemma_pre_mono(vals, i + 1, k - 1); }
}

pub open spec fn aligned(m: SpecMsg) -> bool { forall|i: int| 0 <= i < m.values.len() ==> (#[trigger] m.values[i]).len() % 4 == 0 }

pub proof fn lemma_pre_aligned(m: SpecMsg, k: int)
    requires aligned(m), 0 <= k <= m.values.len()
    ensures pre(m.values, k) % 4 == 0
    decreases k
{ if k > 0 { lemma_pre_aligned(m, k - 1); } }

// decode(enc(m)) == m
pub open spec fn enc_pre(m: SpecMsg) -> bool {
    &&& m.tags.len() == m.values.len()
    &&& m.tags.len() >= 1
    &&& strictly_inc(m.tags)
    &&& aligned(m)
    &&& 8 * m.tags.len() + pre(m.values, m.tags.len() as int) < 0x1_0000_0000
}

pub proof fn lemma_enc_len(m: SpecMsg)
    requires enc_pre(m)
    ensures enc(m).len() == 8 * m.tags.len() + pre(m.values, m.tags.len() as int),
        u32_le(enc(m), 0) == m.tags.len(),
        enc(m).len() % 4 == 0,
{
    let n = m.tags.len() as int;
    lemma_offs_len(m.values, n - 1); lemma_tags_len(m.tags, n); lemma_vals_len(m.values, n);
    lemma_le32_roundtrip(n);
    lemma_pre_aligned(m, n);
    let b = enc(m);
    assert(b.subrange(0, 4) =~= le32(n));
    assert(b[0] == le32(n)[0] && b[1] == le32(n)[1] && b[2] == le32(n)[2] && b[3] == le32(n)[3]);
}

pub proof fn lemma_enc_off(m: SpecMsg, i: int)
    requires enc_pre(m), 0 <= i <= m.tags.len()
    ensures off(enc(m), m.tags.len() as int, i) == pre(m.values, i)
{
    let n = m.tags.len() as int;
    let b = enc(m);
    let vals = m.values;
    lemma_enc_len(m);
    lemma_offs_len(vals, n - 1); lemma_tags_len(m.tags, n); lemma_vals_len(vals, n);
    if 1 <= i < n {
        let O = offs_bytes(vals, n - 1);
        lemma_offs_at(vals, n - 1, i);
        lemma_pre_mono(vals, i, n);
        lemma_le32_roundtrip(pre(vals, i));
        let w = le32(pre(vals, i));
        let p = 4 + 4 * (i - 1);
        assert(b.subrange(p, p + 4) =~= O.subrange(4 * (i - 1), 4 * i));
        assert(b[p] == w[0] && b[p + 1] == w[1] && b[p + 2] == w[2] && b[p + 3] == w[3]) by {
            assert(b.subrange(p, p + 4)[0] == b[p]);
            assert(b.subrange(p, p + 4)[1] == b[p + 1]);
            assert(b.subrange(p, p + 4)[2] == b[p + 2]);
            assert(b.subrange(p, p + 4)[3] == b[p + 3]);
        }
    }
}

pub proof fn lemma_enc_tag(m: SpecMsg, i: int)
    requires enc_pre(m), 0 <= i < m.tags.len()
    ensures tag_at(enc(m), m.tags.len() as int, i) == Some(m.tags[i])
{
    broadcast use wire_len, known_wire_inverse;
    let n = m.tags.len() as int;
    let b = enc(m);
    lemma_offs_len(m.values, n - 1); lemma_tags_len(m.tags, n); lemma_vals_len(m.values, n);
    lemma_tags_at(m.tags, n, i);
    let T = tags_bytes(m.tags, n);
    assert(b.subrange(4 + 4 * (n - 1) + 4 * i, 4 + 4 * (n - 1) + 4 * i + 4) =~= T.subrange(4 * i, 4 * i + 4));
}

pub proof fn lemma_enc_val(m: SpecMsg, i: int)
    requires enc_pre(m), 0 <= i < m.tags.len()
    ensures enc(m).subrange(8 * m.tags.len() + pre(m.values, i), 8 * m.tags.len() + pre(m.values, i + 1)) =~= m.values[i]
{
    let n = m.tags.len() as int;
    let b = enc(m);
    let vals = m.values;
    lemma_offs_len(vals, n - 1); lemma_tags_len(m.tags, n); lemma_vals_len(vals, n);
    lemma_vals_at(vals, n, i);
    lemma_pre_mono(vals, i + 1, n);
    lemma_pre_mono(vals, i, i + 1);
    let V = vals_bytes(vals, n);
    assert(b.subrange(8 * n + pre(vals, i), 8 * n + pre(vals, i + 1)) =~= V.subrange(pre(vals, i), pre(vals, i + 1)));
}

pub proof fn lemma_decode_enc(m: SpecMsg)
    requires enc_pre(m)
    ensures ref_accepts(enc(m)), ref_decode(enc(m)) =~~= m,
{
    let n = m.tags.len() as int;
    let b = enc(m);
    lemma_enc_len(m);
    lemma_pre_mono(m.values, 0, n);
    assert(hdr_len(n) == 8 * n);
    assert forall|i: int| 0 <= i < n implies (#[trigger] tag_at(b, n, i)) is Some by { lemma_enc_tag(m, i); }
    assert forall|i: int, j: int| #![trigger tag_at(b, n, i), tag_at(b, n, j)] 0 <= i < j < n implies
        tag_rank(tag_at(b, n, i).unwrap()) < tag_rank(tag_at(b, n, j).unwrap()) by { lemma_enc_tag(m, i); lemma_enc_tag(m, j); }
    assert forall|i: int| 1 <= i < n implies (#[trigger] off(b, n, i)) % 4 == 0 by { lemma_enc_off(m, i); lemma_pre_aligned(m, i); }
    assert forall|i: int| 0 <= i < n implies off(b, n, i) <= #[trigger] off(b, n, i + 1) by {
        lemma_enc_off(m, i); lemma_enc_off(m, i + 1); lemma_pre_mono(m.values, i, i + 1);
    }
    assert(ref_accepts_n(b, n));
    let d = ref_decode_n(b, n);
    assert forall|i: int| 0 <= i < n implies #[trigger] d.tags[i] == m.tags[i] by { lemma_enc_tag(m, i); }
    assert(d.tags =~= m.tags);
    assert forall|i: int| 0 <= i < n implies #[trigger] d.values[i] =~= m.values[i] by {
        lemma_enc_off(m, i); lemma_enc_off(m, i + 1); lemma_enc_val(m, i);
    }
    assert(d.values =~= m.values);
}

// enc(decode(b)) == b  (canonical form)
pub proof fn lemma_dec_pre(b: Seq<u8>, n: int, i: int)
    requires ref_accepts_n(b, n), n >= 1, 0 <= i <= n
    ensures pre(ref_decode_n(b, n).values, i) == off(b, n, i)
    decreases i
{
    if i > 0 {
        lemma_dec_pre(b, n, i - 1);
        lemma_off_bounded(b, n, i);
        let j = i - 1;
        assert(off(b, n, j) <= off(b, n, j + 1));
        lemma_off_nonneg(b, n, i - 1);
    }
}
pub proof fn lemma_off_nonneg(b: Seq<u8>, n: int, i: int)
    requires ref_accepts_n(b, n), n >= 1, 0 <= i <= n
    ensures 0 <= off(b, n, i)
    decreases i
{
    if i > 0 { lemma_off_nonneg(b, n, i - 1); let j = i - 1; assert(off(b, n, j) <= off(b, n, j + 1)); }
}

pub proof fn lemma_enc_decode(b: Seq<u8>, n: int)
    requires ref_accepts_n(b, n), n >= 1, u32_le(b, 0) == n, b.len() >= 4
    ensures enc(ref_decode_n(b, n)) =~= b
{
    broadcast use wire_len, wire_of_known;
    let m = ref_decode_n(b, n);
    let e = enc(m);
    let vals = m.values;
    lemma_offs_len(vals, n - 1); lemma_tags_len(m.tags, n); lemma_vals_len(vals, n);
    lemma_dec_pre(b, n, n);
    assert(hdr_len(n) == 8 * n);
    assert(e.len() == b.len());
    lemma_le32_of_u32le(b, 0);
    assert forall|k: int| 0 <= k < b.len() implies e[k] == b[k] by {
        if k < 4 {
            assert(e[k] == le32(n)[k]);
            assert(b.subrange(0, 4)[k] == b[k]);
        } else if k < 4 + 4 * (n - 1) {
            let i = (k - 4) / 4 + 1;
            let r = (k - 4) % 4;
            assert(1 <= i < n);
            lemma_offs_at(vals, n - 1, i);
            lemma_dec_pre(b, n, i);
            lemma_le32_of_u32le(b, 4 + 4 * (i - 1));
            let O = offs_bytes(vals, n - 1);
            assert(e[k] == O[k - 4]);
            assert(O.subrange(4 * (i - 1), 4 * i)[r] == O[k - 4]);
            assert(b.subrange(4 + 4 * (i - 1), 4 + 4 * i)[r] == b[k]);
        } else if k < 8 * n {
            let i = (k - 4 * n) / 4;
            let r = (k - 4 * n) % 4;
            assert(0 <= i < n);
            lemma_tags_at(m.tags, n, i);
            let T = tags_bytes(m.tags, n);
            assert(e[k] == T[k - 4 * n]);
            assert(T.subrange(4 * i, 4 * i + 4)[r] == T[k - 4 * n]);
            assert(tag_at(b, n, i) is Some);
            let w = b.subrange(4 + 4 * (n - 1) + 4 * i, 4 + 4 * (n - 1) + 4 * i + 4);
            assert(wire_of(m.tags[i]) == w);
            assert(w[r] == b[k]);
        } else {
            let V = vals_bytes(vals, n);
            assert(e[k] == V[k - 8 * n]);
            lemma_vals_bytes_decode(b, n, n, k - 8 * n);
        }
    }
}

// byte p of the concatenated decoded values is byte 8n+p of b
pub proof fn lemma_vals_bytes_decode(b: Seq<u8>, n: int, k: int, p: int)
    requires ref_accepts_n(b, n), n >= 1, 0 <= k <= n, 0 <= p < off(b, n, k)
    ensures vals_bytes(ref_decode_n(b, n).values, k).len() == off(b, n, k),
        vals_bytes(ref_decode_n(b, n).values, k)[p] == b[8 * n + p]
    decreases k
{
    let vals = ref_decode_n(b, n).values;
    lemma_vals_len(vals, k);
    lemma_dec_pre(b, n, k);
    if k > 0 {
        lemma_vals_len(vals, k - 1);
        lemma_dec_pre(b, n, k - 1);
        lemma_off_nonneg(b, n, k - 1);
        lemma_off_bounded(b, n, k);
        let j = k - 1;
        assert(off(b, n, j) <= off(b, n, j + 1));
        assert(hdr_len(n) == 8 * n);
        if p < off(b, n, k - 1) {
            lemma_vals_bytes_decode(b, n, k - 1, p);
        } else {
            assert(vals[k - 1] == b.subrange(8 * n + off(b, n, k - 1), 8 * n + off(b, n, k)));
        }
    }
}

pub fn once_chain_v<'a>(a: &'a usize, v: &'a Vec<usize>) -> (r: Vec<&'a usize>)
    ensures r@.len() == v@.len() + 1, *r@[0] == *a,
        forall|i: int| 0 <= i < v@.len() ==> *(#[trigger] r@[i + 1]) == v@[i]
{
    let mut r: Vec<&usize> = Vec::new();
    r.push(a);
    let mut i: usize = 0;
    while i < v.len()
        invariant i <= v@.len(), r@.len() == i + 1, *r@[0] == *a,
            forall|j: int| 0 <= j < i ==> *(#[trigger] r@[j + 1]) == v@[j]
        decreases v@.len() - i
    {
        r.push(&v[i]);
        i += 1;
    }
    r
}
pub fn chain_once_v<'a>(v: &'a Vec<usize>, a: &'a usize) -> (r: Vec<&'a usize>)
    ensures r@.len() == v@.len() + 1, *r@[v@.len() as int] == *a,
        forall|i: int| 0 <= i < v@.len() ==> *(#[trigger] r@[i]) == v@[i]
{
    let mut r: Vec<&usize> = Vec::new();
    let mut i: usize = 0;
    while i < v.len()
        invariant i <= v@.len(), r@.len() == i,
            forall|j: int| 0 <= j < i ==> *(#[trigger] r@[j]) == v@[j]
        decreases v@.len() - i
    {
        r.push(&v[i]);
        i += 1;
    }
    r.push(a);
    r
}


pub proof fn lemma_off_bounded(b: Seq<u8>, n: int, i: int)
    requires ref_accepts_n(b, n), 0 <= i <= n, n >= 1
    ensures off(b, n, i) <= b.len() - hdr_len(n)
    decreases n - i
{
    if i < n {
        lemma_off_bounded(b, n, i + 1);
        assert(off(b, n, i) <= off(b, n, i + 1));
    }
}

pub fn once_chain<'a>(a: &'a usize, v: &'a Vec<usize>) -> (r: std::vec::IntoIter<&'a usize>)
    ensures r.remaining().len() == v@.len() + 1, *r.remaining()[0] == *a,
        forall|i: int| 1 <= i <= v@.len() ==> *(#[trigger] r.remaining()[i]) == v@[i - 1]
{
    let vv = once_chain_v(a, v);
    assert forall|i: int| 1 <= i <= v@.len() implies *(#[trigger] vv@[i]) == v@[i - 1] by {
        assert(*vv@[(i - 1) + 1] == v@[i - 1]);
    }
    return vv.into_iter();
    once_chain_v(a, v).into_iter()
}
pub fn chain_once<'a>(v: &'a Vec<usize>, a: &'a usize) -> (r: std::vec::IntoIter<&'a usize>)
    ensures r.remaining().len() == v@.len() + 1, *r.remaining()[v@.len() as int] == *a,
        forall|i: int| 0 <= i < v@.len() ==> *(#[trigger] r.remaining()[i]) == v@[i]
{
    chain_once_v(v, a).into_iter()
}

pub struct RtMessage {
    pub tags: Vec<Tag>,
    pub values: Vec<Vec<u8>>,
}

impl RtMessage {
    pub open spec fn view(&self) -> SpecMsg {
        SpecMsg { tags: self.tags@, values: Seq::new(self.values@.len(), |i: int| self.values@[i]@) }
    }
    pub open spec fn wf(&self) -> bool {
        self.tags@.len() == self.values@.len() && strictly_inc(self.tags@)
    }

    pub fn with_capacity(num_fields: u32) -> (r: Self)
        ensures r.tags@.len() == 0, r.values@.len() == 0
    {
        RtMessage {
            tags: Vec::with_capacity(num_fields as usize),
            values: Vec::with_capacity(num_fields as usize),
        }
    }




    pub fn from_bytes(bytes: &[u8]) -> (r: Result<Self, Error>)
        ensures
            r matches Ok(m) ==> m.wf(),
            bytes@.len() <= u32::MAX ==> match r {
                Ok(m) => ref_accepts(bytes@) && m.wf() && m.view() =~~= ref_decode(bytes@),
                Err(_) => !ref_accepts(bytes@),
            }
    {
        let bytes_len = bytes.len();

        if bytes_len < 4 {
            return Err(Error::MessageTooShort);
        } else if bytes_len % 4 != 0 {
            return Err(Error::InvalidAlignment(bytes_len as u32));
        }

        let mut msg = Cursor::new(bytes);
        let num_tags = msg.read_u32::<LittleEndian>()?;

        proof {
            assert(num_tags as int == u32_le(bytes@, 0));
            if num_tags > 1024 && ref_accepts_n(bytes@, num_tags as int) { lemma_at_most_all_tags(bytes@, num_tags as int); }
        }
        match num_tags {
            0 => Ok(RtMessage::with_capacity(0)),
            1 => RtMessage::single_tag_message(bytes, &mut msg),
            2..=1024 => RtMessage::multi_tag_message(num_tags, bytes, &mut msg),
            _ => Err(Error::InvalidNumTags(num_tags)),
        }
    }

    fn single_tag_message(bytes: &[u8], msg: &mut Cursor<&[u8]>) -> (r: Result<Self, Error>)
        requires
            old(msg).inner@ == bytes@,
            old(msg).pos == 4,
            bytes@.len() >= 4, bytes@.len() % 4 == 0,
        ensures
            r matches Ok(m) ==> m.wf(),
            match r {
                Ok(m) => ref_accepts_n(bytes@, 1) && m.wf() && m.view() =~~= ref_decode_n(bytes@, 1),
                Err(_) => !ref_accepts_n(bytes@, 1),
            }
    {
        if bytes.len() < 8 {
            return Err(Error::MessageTooShort);
        }

        let pos = msg.position() as usize;
        msg.set_position((pos + 4) as u64);

        let mut value = Vec::new();
        msg.read_to_end(&mut value)?;

        proof {
            assert(tag_at(bytes@, 1, 0) == known_wire(bytes@.subrange(4, 8)));
        }
        let tag = Tag::from_wire(&bytes[pos..pos + 4])?;
        let mut rt_msg = RtMessage::with_capacity(1);
        rt_msg.add_field(tag, &value)?;

        proof {
            assert(off(bytes@, 1, 0) == 0);
            assert(off(bytes@, 1, 1) == bytes@.len() - 8);
            assert(rt_msg.view().tags =~= ref_decode_n(bytes@, 1).tags);
            assert(rt_msg.view().values =~= ref_decode_n(bytes@, 1).values);
        }
        Ok(rt_msg)
    }

    fn multi_tag_message(
        num_tags: u32,
        bytes: &[u8],
        msg: &mut Cursor<&[u8]>,
    ) -> (r: Result<Self, Error>)
        requires
            2 <= num_tags <= 1024,
            old(msg).inner@ == bytes@,
            old(msg).pos == 4,
            bytes@.len() >= 4, bytes@.len() % 4 == 0,
        ensures
            r matches Ok(m) ==> m.wf(),
            bytes@.len() <= u32::MAX ==> match r {
                Ok(m) => ref_accepts_n(bytes@, num_tags as int) && m.wf() && m.view() =~~= ref_decode_n(bytes@, num_tags as int),
                Err(_) => !ref_accepts_n(bytes@, num_tags as int),
            }
    {
        broadcast use axioms::tag_derive;
        let ghost n = num_tags as int;
        let ghost b = bytes@;
        proof { axiom_slice_len(bytes); }
        let bytes_len = bytes.len();
        let mut offsets = Vec::with_capacity((num_tags - 1) as usize);

        proof { let _t: &Vec<usize> = &offsets; }
        for _ in it1: 0..num_tags - 1
            invariant
                n == num_tags as int, b == bytes@, 2 <= n <= 1024,
                msg.inner@ == b, bytes_len == b.len(), b.len() <= isize::MAX,
                offsets@.len() == it1.index(),
                offsets@.len() <= n - 1,
                msg.pos == 4 + 4 * offsets@.len(),
                msg.pos <= b.len(),
                forall|j: int| 0 <= j < offsets@.len() ==> (#[trigger] offsets@[j]) as int == off(b, n, j + 1)
                    && offsets@[j] % 4 == 0 && offsets@[j] <= bytes_len,
        {
            proof {
                let k = offsets@.len() as int;
                assert(off(b, n, k + 1) == u32_le(b, msg.pos as int));
                if ref_accepts_n(b, n) { lemma_off_bounded(b, n, k + 1); }
            }
            let offset = msg.read_u32::<LittleEndian>()?;

            if offset % 4 != 0 {
                return Err(Error::InvalidAlignment(offset));
            } else if offset > bytes_len as u32 {
                return Err(Error::InvalidOffsetValue(offset));
            }

            offsets.push(offset as usize);
        }

        let mut buf = [0; 4];
        let mut tags = Vec::with_capacity(num_tags as usize);

        proof { let _t: &Vec<Tag> = &tags; }
        for _ in it2: 0..num_tags
            invariant
                n == num_tags as int, b == bytes@, 2 <= n <= 1024,
                msg.inner@ == b, bytes_len == b.len(), b.len() <= isize::MAX,
                buf@.len() == 4,
                offsets@.len() == n - 1,
                forall|j: int| 0 <= j < offsets@.len() ==> (#[trigger] offsets@[j]) as int == off(b, n, j + 1)
                    && offsets@[j] % 4 == 0 && offsets@[j] <= bytes_len,
                tags@.len() == it2.index(),
                tags@.len() <= n,
                msg.pos == 4 * n + 4 * tags@.len(),
                msg.pos <= b.len(),
                forall|j: int| 0 <= j < tags@.len() ==> tag_at(b, n, j) == Some(#[trigger] tags@[j]),
                strictly_inc(tags@),
        {
            broadcast use axioms::tag_derive;
            proof {
                let k = tags@.len() as int;
                if msg.pos + 4 <= b.len() {
                    assert(tag_at(b, n, k) == known_wire(b.subrange(msg.pos as int, msg.pos as int + 4)));
                }
                if k > 0 { assert(tag_at(b, n, k - 1) == Some(tags@[k - 1])); }
            }
            if msg.read_exact(&mut buf).is_err() {
                return Err(Error::MessageTooShort);
            }

            let tag = Tag::from_wire(&buf)?;

            if let Some(last_tag) = tags.last() {
                if tag <= *last_tag {
                    return Err(Error::TagNotStrictlyIncreasing(tag));
                }
            }

            tags.push(tag);
        }

        // All offsets are relative to the end of the header,
        // which is our current position
        let header_end = msg.position() as usize;

        // Compute the end of the last value,
        // as an offset from the end of the header
        let msg_end = bytes.len() - header_end;

        // Create an iterator for the offset pairs of each tag value
        let start_offsets = once_chain(&0, &offsets);
        let end_offsets = chain_once(&offsets, &msg_end);
        let offset_pairs = start_offsets.zip(end_offsets);

        // The message being built
        let mut rt_msg = RtMessage::with_capacity(num_tags);

        let ghost tags_seq = tags@;
        proof {
            assert forall|j: int| 0 <= j < n implies (#[trigger] tag_at(b, n, j)) == Some(tags_seq[j]) by {
                assert(tag_at(b, n, j) == Some(tags@[j]));
            }
            assert forall|j: int| 0 <= j < n implies *(#[trigger] offset_pairs.remaining()[j]).0 == off(b, n, j)
                && *offset_pairs.remaining()[j].1 == off(b, n, j + 1) by {
                if j >= 1 { assert(offsets@[j - 1] as int == off(b, n, j)); }
                if j < n - 1 { assert(offsets@[j] as int == off(b, n, j + 1)); }
            }
        }
        proof {
            assert forall|j: int| 1 <= j < n implies (#[trigger] off(b, n, j)) % 4 == 0 && off(b, n, j) <= b.len() by {
                assert(offsets@[j - 1] as int == off(b, n, j));
            }
        }
        for (tag, (value_start, value_end)) in it3: tags.into_iter().zip(offset_pairs)
            invariant
                n == num_tags as int, b == bytes@, 2 <= n <= 1024,
                bytes_len == b.len(), header_end == 8 * n, header_end <= b.len(), b.len() <= isize::MAX,
                tags_seq.len() == n, strictly_inc(tags_seq),
                forall|j: int| 0 <= j < n ==> (#[trigger] tag_at(b, n, j)) == Some(tags_seq[j]),
                forall|j: int| 1 <= j < n ==> (#[trigger] off(b, n, j)) % 4 == 0 && off(b, n, j) <= b.len(),
                it3.seq().len() == n,
                forall|j: int| 0 <= j < n ==> (#[trigger] it3.seq()[j]).0 == tags_seq[j]
                    && *it3.seq()[j].1.0 == off(b, n, j) && *it3.seq()[j].1.1 == off(b, n, j + 1),
                rt_msg.wf(),
                rt_msg.tags@ == tags_seq.subrange(0, it3.index() as int),
                rt_msg.values@.len() == it3.index(),
                forall|j: int| 0 <= j < it3.index() ==> off(b, n, j) <= #[trigger] off(b, n, j + 1) && off(b, n, j + 1) <= b.len() - 8 * n
                    && rt_msg.values@[j]@ == b.subrange(8 * n + off(b, n, j), 8 * n + off(b, n, j + 1)),
        {
            proof {
                let k = it3.index() as int;
                if ref_accepts_n(b, n) { lemma_off_bounded(b, n, k + 1); }
            }
            let start_idx = header_end + value_start;
            let end_idx = header_end + value_end;

            if end_idx > bytes_len || start_idx > end_idx {
                return Err(Error::InvalidValueLength(tag, end_idx as u32));
            }

            let value = bytes[start_idx..end_idx].to_vec();
            rt_msg.add_field(tag, &value)?;
        }

        proof {
            assert(rt_msg.tags@ =~= tags_seq);
            assert(hdr_len(n) == 8 * n);
            assert(forall|i: int| 0 <= i < n ==> (#[trigger] tag_at(b, n, i)) is Some);
            assert(forall|i: int| 0 <= i < n ==> off(b, n, i) <= #[trigger] off(b, n, i + 1));
            assert(forall|i: int, j: int| #![trigger tag_at(b, n, i), tag_at(b, n, j)] 0 <= i < j < n ==> tag_rank(tag_at(b, n, i).unwrap()) < tag_rank(tag_at(b, n, j).unwrap())) by {
                assert forall|i: int, j: int| #![trigger tag_at(b, n, i), tag_at(b, n, j)] 0 <= i < j < n implies tag_rank(tag_at(b, n, i).unwrap()) < tag_rank(tag_at(b, n, j).unwrap()) by {
                    assert(tag_at(b, n, i) == Some(tags_seq[i]));
                    assert(tag_at(b, n, j) == Some(tags_seq[j]));
                }
            }
            assert(ref_accepts_n(b, n));
            assert(rt_msg.view().tags =~= ref_decode_n(b, n).tags);
            assert(rt_msg.view().values =~= ref_decode_n(b, n).values);
        }
        Ok(rt_msg)
    }


    pub fn encode(&self) -> (r: Result<Vec<u8>, Error>)
        requires self.wf(), self.tags@.len() <= 1024, pre(self.view().values, self.tags@.len() as int) <= u32::MAX
        ensures r matches Ok(out) && out@ == enc(self.view())
    {
        let ghost vals = self.view().values;
        let ghost tgs = self.tags@;
        let ghost n = self.tags@.len() as int;
        let num_tags = self.tags.len();
        let mut out = Vec::with_capacity(self.encoded_size());

        // number of tags
        out.write_u32::<LittleEndian>(num_tags as u32)?;

        proof { assert(out@ =~= le32(n) + offs_bytes(vals, 0)); }
        // offset(s) to values, IFF there are two or more tags
        if num_tags > 1 {
            let mut offset_sum = self.values[0].len();

            proof { assert(pre(vals, 1) == vals[0].len()) by { reveal_with_fuel(pre, 2); } }
            for val in it1: &self.values[1..]
                invariant
                    n == self.tags@.len(), n == self.values@.len(), vals == self.view().values, n > 1,
                    pre(vals, n) <= u32::MAX,
                    it1.seq().len() == n - 1,
                    forall|j: int| 0 <= j < n - 1 ==> (#[trigger] it1.seq()[j])@ == vals[j + 1],
                    out@ == le32(n) + offs_bytes(vals, it1.index() as int),
                    offset_sum == pre(vals, it1.index() + 1),
            {
                proof {
                    let k = it1.index() as int;
                    lemma_pre_mono(vals, k + 1, n);
                    lemma_pre_mono(vals, k + 2, n);
                    assert(val@ == vals[k + 1]);
                }
                out.write_u32::<LittleEndian>(offset_sum as u32)?;
                offset_sum += val.len();
                proof {
                    let k = it1.index() as int;
                    assert(out@ =~= le32(n) + offs_bytes(vals, k + 1));
                }
            }
        }

        proof { assert(out@ =~= le32(n) + offs_bytes(vals, n - 1) + tags_bytes(tgs, 0)); }
        // write tags
        for tag in it2: &self.tags
            invariant
                tgs == self.tags@, n == tgs.len(),
                out@ == le32(n) + offs_bytes(vals, n - 1) + tags_bytes(tgs, it2.index() as int),
        {
            out.write_all(tag.wire_value())?;
            proof {
                let k = it2.index() as int;
                assert(out@ =~= le32(n) + offs_bytes(vals, n - 1) + tags_bytes(tgs, k + 1));
            }
        }

        proof { assert(out@ =~= le32(n) + offs_bytes(vals, n - 1) + tags_bytes(tgs, n) + vals_bytes(vals, 0)); }
        // write values
        for value in it3: &self.values
            invariant
                vals == self.view().values, n == vals.len(),
                out@ == le32(n) + offs_bytes(vals, n - 1) + tags_bytes(tgs, n) + vals_bytes(vals, it3.index() as int),
        {
            proof { assert(value@ == vals[it3.index() as int]); }
            out.write_all(value)?;
            proof {
                let k = it3.index() as int;
                assert(out@ =~= le32(n) + offs_bytes(vals, n - 1) + tags_bytes(tgs, n) + vals_bytes(vals, k + 1));
            }
        }

        proof {
            lemma_lens(self.view(), n);
            if n >= 1 { lemma_lens(self.view(), n - 1); }
        }
        // check we wrote exactly what we expected
        assert!(out.len() == self.encoded_size());

        Ok(out)
    }

    pub fn encoded_size(&self) -> (r: usize)
        requires self.tags@.len() <= 1024, pre(self.view().values, self.values@.len() as int) <= u32::MAX
        ensures r == 4 + 4 * self.tags@.len() + (if self.tags@.len() < 2 { 0 } else { 4 * (self.tags@.len() - 1) }) + pre(self.view().values, self.values@.len() as int)
    {
        let num_tags = self.tags.len();
        let tags_size = 4 * num_tags;
        let offsets_size = if num_tags < 2 { 0 } else { 4 * (num_tags - 1) };
        let values_size: usize = sum_lens(&self.values);

        4 + tags_size + offsets_size + values_size
    }

    pub fn add_field(&mut self, tag: Tag, value: &[u8]) -> (r: Result<(), Error>)
        requires old(self).wf()
        ensures
            final(self).wf(),
            match r {
                Ok(_) => final(self).tags@ == old(self).tags@.push(tag)
                      && final(self).values@.len() == old(self).values@.len() + 1
                      && (forall|i: int| 0 <= i < old(self).values@.len() ==> final(self).values@[i] == old(self).values@[i])
                      && final(self).values@[old(self).values@.len() as int]@ == value@
                      && (old(self).tags@.len() > 0 ==> tag_rank(old(self).tags@.last()) < tag_rank(tag)),
                Err(_) => final(self).tags@ == old(self).tags@ && final(self).values@ == old(self).values@
                      && old(self).tags@.len() > 0 && tag_rank(tag) <= tag_rank(old(self).tags@.last()),
            }
    {
        broadcast use axioms::tag_derive;
        if let Some(last_tag) = self.tags.last() {
            if tag <= *last_tag {
                return Err(Error::TagNotStrictlyIncreasing(tag));
            }
        }

        self.tags.push(tag);
        self.values.push(value.to_vec());

        Ok(())
    }
}
}
fn main() {}
