// D8 / C06: RtMessage::to_string recursed once per nesting level with no depth limit. A 65,532-byte datagram made of
// single-tag CERT messages nested 8,190 deep decodes successfully, but formatting it exhausts the stack and aborts the
// process ("Formatting any successfully decoded message for display also returns normally" is false for it).
use roughenough::RtMessage;
#[test]
fn display_of_deeply_nested_message_returns() {
    // innermost: an empty (zero-tag) message; each level wraps it as the value of a single CERT field
    let mut bytes: Vec<u8> = vec![0, 0, 0, 0];
    while bytes.len() + 8 <= 65_532 {
        let mut outer = vec![1u8, 0, 0, 0, b'C', b'E', b'R', b'T'];
        outer.extend_from_slice(&bytes);
        bytes = outer;
    }
    assert!(bytes.len() <= 65_536);
    let msg = RtMessage::from_bytes(&bytes).expect("decodes");
    // run on a thread with the default 2 MiB stack, like a server worker
    let h = std::thread::spawn(move || format!("{}", msg).len());
    assert!(h.join().unwrap() > 0);
}
