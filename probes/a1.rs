use vstd::prelude::*;
verus! {
fn f(x: u32) -> (r: u32) ensures r > 0 {
    assert!(x > 0, "x must be positive {}", x);
    x
}
fn g(x: u32) -> (r: u32) ensures r > 0 {
    if x == 0 { panic!("zero {}", x); }
    x
}
fn h(x: Option<u32>) -> u32 {
    x.unwrap()
}
fn k(x: Option<u32>) -> u32 {
    x.expect("no")
}
}
fn main() {}
