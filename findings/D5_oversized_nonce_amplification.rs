// D5 / C07 (and D4 / C08): the request parser accepted a NONC of any length. A 1024-byte classic request whose NONC is
// 900 bytes long was answered with a 1268-byte datagram (reply longer than the request), and an empty NONC made
// `&nonce[0..4]` in a log argument panic at Debug level.
use mio::net::UdpSocket;
use roughenough::config::MemoryConfig;
use roughenough::key::LongTermKey;
use roughenough::request::nonce_from_request;
use roughenough::responder::Responder;
use roughenough::stats::{AggregatedStats, ServerStats};
use roughenough::version::Version;
use roughenough::{RtMessage, Tag};

fn classic_request(nonce_len: usize) -> Vec<u8> {
    let mut m = RtMessage::with_capacity(2);
    m.add_field(Tag::NONC, &vec![0x55u8; nonce_len]).unwrap();
    let pad = 1024 - (4 + 4 + 8 + nonce_len);
    m.add_field(Tag::PAD, &vec![0u8; pad]).unwrap();
    let b = m.encode().unwrap();
    assert_eq!(b.len(), 1024);
    b
}

#[test]
fn oversized_nonce_is_not_answered_with_a_longer_reply() {
    let req = classic_request(900);
    let cfg = MemoryConfig::new(0);
    let mut ltk = LongTermKey::new(&[7u8; 32]);
    let srv = ltk.srv_value().to_vec();
    match nonce_from_request(&req, req.len(), &srv) {
        Err(_) => {} // dropped silently: fine
        Ok((nonce, _v)) => {
            // the server would queue it; build the reply exactly as the server does and measure it
            let mut responder = Responder::new(Version::Google, &cfg, &mut ltk);
            let addr: std::net::SocketAddr = "127.0.0.1:0".parse().unwrap();
            let mut sock = UdpSocket::bind(&addr).unwrap();
            let rx = std::net::UdpSocket::bind("127.0.0.1:0").unwrap();
            rx.set_read_timeout(Some(std::time::Duration::from_secs(2))).unwrap();
            responder.add_classic_request(nonce, rx.local_addr().unwrap());
            let mut stats: Box<dyn ServerStats> = Box::new(AggregatedStats::new());
            responder.send_responses(&mut sock, &mut stats);
            let mut buf = [0u8; 4096];
            let (n, _) = rx.recv_from(&mut buf).unwrap();
            assert!(n <= req.len(), "reply of {} bytes to a request of {} bytes", n, req.len());
        }
    }
}
