use vstd::prelude::*;
verus! {
#[derive(Clone, Copy)]
pub struct ClientStats { pub rfc_requests: u32, pub classic_requests: u32, pub ip: u32 }

impl ClientStats {
    pub fn new(ip: u32) -> (r: Self) ensures r == (ClientStats { rfc_requests: 0, classic_requests: 0, ip }) {
        ClientStats { rfc_requests: 0, classic_requests: 0, ip }
    }
}

pub struct AHashMap { pub m: Ghost<Map<u32, ClientStats>> }
pub struct Entry<'a> { pub map: &'a mut AHashMap, pub key: u32 }

impl AHashMap {
    #[verifier::external_body]
    pub fn len(&self) -> (r: usize) ensures r == self.m@.len(), self.m@.dom().finite() { unimplemented!() }

    #[verifier::external_body]
    pub fn entry(&mut self, k: u32) -> (e: Entry<'_>)
        ensures e.key == k, *e.map == *old(self), *final(e.map) == *final(self)
    { unimplemented!() }
}
impl<'a> Entry<'a> {
    #[verifier::external_body]
    pub fn or_insert_with_key<F: FnOnce(&u32) -> ClientStats>(self, f: F) -> (r: &'a mut ClientStats)
        requires f.requires((&self.key,))
        ensures
            old(self.map).m@.contains_key(self.key) ==> *r == old(self.map).m@[self.key],
            !old(self.map).m@.contains_key(self.key) ==> f.ensures((&self.key,), *r),
            final(self.map).m@ == old(self.map).m@.insert(self.key, *final(r)),
    { unimplemented!() }
}

pub struct PerClientStats { pub clients: AHashMap, pub num_overflows: u64, pub max_clients: usize }

impl PerClientStats {
    fn too_many_entries(&mut self) -> (r: bool)
        requires old(self).num_overflows < u64::MAX
        ensures r == (old(self).clients.m@.len() >= old(self).max_clients),
            final(self).clients == old(self).clients, final(self).max_clients == old(self).max_clients,
            final(self).num_overflows == old(self).num_overflows + if r { 1u64 } else { 0u64 },
    {
        let too_big = self.clients.len() >= self.max_clients;

        if too_big {
            self.num_overflows += 1;
        }

        too_big
    }

    fn add_ietf_request(&mut self, addr: &u32)
        requires old(self).num_overflows < u64::MAX,
            old(self).clients.m@.contains_key(*addr) ==> old(self).clients.m@[*addr].rfc_requests < u32::MAX
    {
        if self.too_many_entries() {
            return;
        }
        self.clients
            .entry(*addr)
            .or_insert_with_key(|addr| ClientStats::new(*addr))
            .rfc_requests += 1;
    }
}
}
fn main() {}
