#!/bin/sh
# D1 / C01: the client printed a time with verified=Yes and exit 0 although -k named a DIFFERENT key than the server's
#           (validate_dele / validate_srep only printed "INVALID signature ..." and returned).
# D2b / C03: `-p 13` against an honest server panicked ("Nonce is not present in the response's merkle tree"):
#           the client folded the IETF inclusion proof from the nonce, the server hashes the whole request packet.
# usage: D1_D2b_client_e2e.sh <checkout-dir> ; builds there (CARGO_TARGET_DIR=<dir>/target), runs server+client on loopback
set -u
D=$1
cd "$D" || exit 2
export CARGO_TARGET_DIR="$D/target"
cargo build --offline --bins >/dev/null 2>&1 || { echo "build failed"; exit 2; }
PORT=$((20000 + $$ % 20000))
cat > "$D/verif_e2e.cfg" <<CFG
port: $PORT
interface: 127.0.0.1
seed: a32049da0ffde0ded92ce10a0230d35fe615ec8461c14986baa63fe3b3bac3db
num_workers: 1
CFG
"$CARGO_TARGET_DIR/debug/roughenough-server" "$D/verif_e2e.cfg" >"$D/verif_e2e.server.log" 2>&1 &
SP=$!
sleep 1.5
PK=$(grep -o 'Long-term public key *: *[0-9a-f]\{64\}' "$D/verif_e2e.server.log" | grep -o '[0-9a-f]\{64\}' | head -1)
WRONG=d75a980182b10ab7d54bfed3c964073a0ee172f3daa62325af021a68f707511a   # a valid Ed25519 public key (RFC 8032 test 1), not the server's
rc=0
echo "server key: $PK"
# C03: honest server, right key, both protocols -> exit 0, verified=Yes
for P in 0 13; do
  OUT=$("$CARGO_TARGET_DIR/debug/roughenough-client" 127.0.0.1 $PORT -p $P -k "$PK" -v -t 3 2>&1); E=$?
  echo "[p=$P right key] exit=$E $(echo "$OUT" | grep -o 'verified=[A-Za-z]*' | head -1) $(echo "$OUT" | grep -i 'panicked' | head -1)"
  if [ $E -ne 0 ] || ! echo "$OUT" | grep -q 'verified=Yes'; then echo "  -> C03 VIOLATED (honest response rejected)"; rc=1; fi
done
# C01: wrong key -> must fail (non-zero exit, no verified=Yes)
for P in 0 13; do
  OUT=$("$CARGO_TARGET_DIR/debug/roughenough-client" 127.0.0.1 $PORT -p $P -k "$WRONG" -v -t 3 2>&1); E=$?
  echo "[p=$P wrong key] exit=$E $(echo "$OUT" | grep -o 'verified=[A-Za-z]*' | head -1)"
  if echo "$OUT" | grep -q "verified=Yes"; then echo "  -> C01 VIOLATED (unauthentic response reported as verified)"; rc=1; fi
done
kill $SP 2>/dev/null
rm -f "$D/verif_e2e.cfg"
exit $rc
