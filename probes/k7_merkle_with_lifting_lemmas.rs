use vstd::prelude::*;
use vstd::std_specs::convert::FromSpec;
use vstd::std_specs::iter::IteratorSpec;
verus! {
global size_of usize == 8;

pub enum Version { Google, RfcDraft13 }
use Version::{Google, RfcDraft13};

pub exec const TREE_LEAF_TWEAK: &'static [u8] ensures TREE_LEAF_TWEAK@ == seq![0u8] { &[0x00] }
pub exec const TREE_NODE_TWEAK: &'static [u8] ensures TREE_NODE_TWEAK@ == seq![1u8] { &[0x01] }

pub uninterp spec fn H512(x: Seq<u8>) -> Seq<u8>;
pub broadcast axiom fn h512_len(x: Seq<u8>) ensures #[trigger] H512(x).len() == 64;

pub mod digest {
    use vstd::prelude::*;
    use super::*;
    pub struct Algorithm { pub id: u8 }
    pub struct Digest { pub v: Vec<u8> }
    pub struct Context { pub data: Ghost<Seq<u8>> }
    pub exec static SHA512: Algorithm = Algorithm { id: 0 };
    impl Algorithm {
        #[verifier::external_body]
        pub fn output_len(&self) -> (r: usize) ensures r == 64 { 64 }
    }
    impl Context {
        #[verifier::external_body]
        pub fn new(a: &'static Algorithm) -> (c: Context) ensures c.data@ == Seq::<u8>::empty() { unimplemented!() }
        #[verifier::external_body]
        pub fn update(&mut self, d: &[u8]) ensures final(self).data@ == old(self).data@ + d@ { unimplemented!() }
        #[verifier::external_body]
        pub fn finish(self) -> (d: Digest) ensures d.v@ == H512(self.data@) { unimplemented!() }
    }
    impl Digest {
        pub fn as_ref(&self) -> (r: &[u8]) ensures r@ == self.v@ { self.v.as_slice() }
    }
}

pub axiom fn vec_from_obeys()
    ensures <Vec<u8> as FromSpec<&[u8]>>::obeys_from_spec();
pub broadcast axiom fn vec_from_slice_u8(s: &[u8])
    ensures
        (#[trigger] <Vec<u8> as FromSpec<&[u8]>>::from_spec(s))@ == s@;


#[verifier::external_body]
pub fn chunks_v<'a>(s: &'a [u8], n: usize) -> (r: Vec<&'a [u8]>)
    requires n > 0
    ensures
        r@.len() == (s@.len() + n - 1) / n as int,
        forall|i: int| 0 <= i < r@.len() ==> (#[trigger] r@[i])@ ==
            s@.subrange(i * n, if (i + 1) * n <= s@.len() { (i + 1) * n } else { s@.len() as int }),
{
    s.chunks(n).collect::<Vec<_>>()
}
pub fn chunks<'a>(s: &'a [u8], n: usize) -> (r: std::vec::IntoIter<&'a [u8]>)
    requires n > 0
    ensures
        r.decrease() is Some,
        r.remaining().len() == (s@.len() + n - 1) / n as int,
        forall|i: int| 0 <= i < r.remaining().len() ==> (#[trigger] r.remaining()[i])@ ==
            s@.subrange(i * n, if (i + 1) * n <= s@.len() { (i + 1) * n } else { s@.len() as int }),
{
    chunks_v(s, n).into_iter()
}

#[verifier::external_body]
pub fn extend_bytes(v: &mut Vec<u8>, e: Vec<u8>)
    ensures final(v)@ == old(v)@ + e@
{ v.extend(e) }

type Data = Vec<u8>;
type Hash = Data;

pub struct MerkleTree {
    levels: Vec<Vec<Data>>,
    algorithm: &'static digest::Algorithm,
    version: Version,
}

pub open spec fn views(s: Seq<&[u8]>) -> Seq<Seq<u8>> { Seq::new(s.len(), |i: int| s[i]@) }
pub open spec fn cat(parts: Seq<Seq<u8>>) -> Seq<u8> decreases parts.len() {
    if parts.len() == 0 { Seq::empty() } else { cat(parts.drop_last()) + parts.last() }
}
pub proof fn cat2(a: Seq<u8>, b: Seq<u8>) ensures cat(seq![a, b]) =~= a + b {
    let p = seq![a, b];
    assert(p.drop_last() =~= seq![a]);
    assert(seq![a].drop_last() =~= Seq::<Seq<u8>>::empty());
    reveal_with_fuel(cat, 3);
}
pub proof fn cat3(a: Seq<u8>, b: Seq<u8>, c: Seq<u8>) ensures cat(seq![a, b, c]) =~= a + b + c {
    let p = seq![a, b, c];
    assert(p.drop_last() =~= seq![a, b]);
    cat2(a, b);
}
pub broadcast proof fn cat_views2(s: Seq<&[u8]>)
    requires s.len() == 2
    ensures #[trigger] cat(views(s)) =~= s[0]@ + s[1]@
{
    assert(views(s) =~= seq![s[0]@, s[1]@]);
    cat2(s[0]@, s[1]@);
}
pub broadcast proof fn cat_views3(s: Seq<&[u8]>)
    requires s.len() == 3
    ensures #[trigger] cat(views(s)) =~= s[0]@ + s[1]@ + s[2]@
{
    assert(views(s) =~= seq![s[0]@, s[1]@, s[2]@]);
    cat3(s[0]@, s[1]@, s[2]@);
}
pub open spec fn leafH(d: Seq<u8>) -> Seq<u8> { H512(seq![0u8] + d) }
pub open spec fn nodeH(l: Seq<u8>, r: Seq<u8>) -> Seq<u8> { H512(seq![1u8] + l + r) }


// ---------------- merkle spec ----------------
pub open spec fn zero_node() -> Seq<u8> { Seq::new(64, |i: int| 0u8) }
pub open spec fn pad(l: Seq<Seq<u8>>) -> Seq<Seq<u8>> { if l.len() % 2 == 1 { l.push(zero_node()) } else { l } }
pub open spec fn next_level(l: Seq<Seq<u8>>) -> Seq<Seq<u8>> {
    Seq::new((pad(l).len() / 2) as nat, |i: int| nodeH(pad(l)[2 * i], pad(l)[2 * i + 1]))
}
pub open spec fn spec_root(l: Seq<Seq<u8>>) -> Seq<u8>
    decreases l.len()
{
    if l.len() <= 1 { l[0] } else { spec_root(next_level(l)) }
}
pub open spec fn sib(i: int) -> int { if i % 2 == 0 { i + 1 } else { i - 1 } }
pub open spec fn spec_path(l: Seq<Seq<u8>>, i: int) -> Seq<u8>
    decreases l.len()
{
    if l.len() <= 1 { Seq::empty() } else { pad(l)[sib(i)] + spec_path(next_level(l), i / 2) }
}
pub open spec fn spec_fold(i: int, h: Seq<u8>, p: Seq<u8>) -> Seq<u8>
    decreases p.len()
{
    if p.len() < 64 { h } else {
        let s = p.subrange(0, 64);
        let nh = if i % 2 == 0 { nodeH(h, s) } else { nodeH(s, h) };
        spec_fold(i / 2, nh, p.subrange(64, p.len() as int))
    }
}

pub open spec fn lev(l: Seq<Seq<u8>>, k: nat) -> Seq<Seq<u8>>
    decreases k
{
    if k == 0 { l } else { next_level(lev(l, (k - 1) as nat)) }
}
pub open spec fn depth(l: Seq<Seq<u8>>) -> nat
    decreases l.len()
{
    if l.len() <= 1 { 0 } else { 1 + depth(next_level(l)) }
}

pub open spec fn fin(v: Version, h: Seq<u8>) -> Seq<u8> {
    match v { Version::RfcDraft13 => h.subrange(0, 32), Version::Google => h }
}
pub open spec fn all64(l: Seq<Seq<u8>>) -> bool { forall|i: int| 0 <= i < l.len() ==> (#[trigger] l[i]).len() == 64 }

pub proof fn lemma_next_all64(l: Seq<Seq<u8>>)
    requires all64(l)
    ensures all64(next_level(l)), all64(pad(l))
{
    broadcast use h512_len;
}

pub proof fn lemma_complete(l: Seq<Seq<u8>>, i: int)
    requires l.len() >= 1, 0 <= i < l.len(), all64(l)
    ensures spec_fold(i, l[i], spec_path(l, i)) == spec_root(l)
    decreases l.len()
{
    broadcast use h512_len;
    if l.len() <= 1 {
    } else {
        let p = pad(l);
        let nl = next_level(l);
        lemma_next_all64(l);
        let path = spec_path(l, i);
        let rest = spec_path(nl, i / 2);
        assert(path == p[sib(i)] + rest);
        assert(p[sib(i)].len() == 64);
        assert(path.subrange(0, 64) =~= p[sib(i)]);
        assert(path.subrange(64, path.len() as int) =~= rest);
        assert(p[i] == l[i]);
        let nh = if i % 2 == 0 { nodeH(l[i], p[sib(i)]) } else { nodeH(p[sib(i)], l[i]) };
        assert(nh == nl[i / 2]);
        lemma_complete(nl, i / 2);
    }
}

impl MerkleTree {

    pub closed spec fn ver(&self) -> Version { self.version }
    pub closed spec fn lvl(&self, k: int) -> Seq<Seq<u8>> {
        Seq::new(self.levels@[k]@.len(), |i: int| self.levels@[k]@[i]@)
    }


    pub closed spec fn nlevels(&self) -> int { self.levels@.len() as int }

    // state after reset + push_leaf*: level 0 holds the leaf hashes, everything above is empty
    pub open spec fn ready(&self, leaves: Seq<Seq<u8>>) -> bool {
        &&& self.nlevels() >= 1
        &&& self.lvl(0) == leaves
        &&& all64(leaves)
        &&& forall|k: int| 1 <= k < self.nlevels() ==> (#[trigger] self.lvl(k)).len() == 0
    }

    // state after compute_root
    pub open spec fn built(&self, leaves: Seq<Seq<u8>>) -> bool {
        &&& leaves.len() >= 1
        &&& all64(leaves)
        &&& self.nlevels() >= depth(leaves) + 1
        &&& forall|k: int| 0 <= k < depth(leaves) ==> #[trigger] self.lvl(k) == pad(lev(leaves, k as nat))
        &&& forall|k: int| depth(leaves) <= k < self.nlevels() ==> (#[trigger] self.lvl(k)).len() == 0
    }


    pub open spec fn pathable(&self, i: int, k: int) -> bool
        decreases self.nlevels() - k
    {
        0 <= k < self.nlevels() && 0 <= i && (self.lvl(k).len() == 0 || (sib(i) < self.lvl(k).len() && self.pathable(i / 2, k + 1)))
    }
    pub open spec fn state_path(&self, i: int, k: int) -> Seq<u8>
        decreases self.nlevels() - k
    {
        if k < 0 || k >= self.nlevels() || self.lvl(k).len() == 0 { Seq::empty() }
        else { self.lvl(k)[sib(i)] + self.state_path(i / 2, k + 1) }
    }

    pub fn get_paths(&self, mut index: usize) -> (r: Vec<u8>)
        requires self.pathable(index as int, 0), self.nlevels() <= 33
        ensures r@ == self.state_path(index as int, 0)
    {
        let mut paths = Vec::with_capacity(self.levels.len() * self.algorithm.output_len());
        let mut level = 0;

        let ghost index0 = index as int;
        proof { assert(paths@ + self.state_path(index0, 0) =~= self.state_path(index0, 0)); }
        while !self.levels[level].is_empty()
            invariant
                self.nlevels() <= 33, 0 <= level < self.nlevels(),
                self.pathable(index as int, level as int),
                paths@ + self.state_path(index as int, level as int) == self.state_path(index0, 0),
            decreases self.nlevels() - level
        {
            proof {
                assert(self.lvl(level as int).len() == self.levels@[level as int]@.len());
                let sp = self.state_path(index as int, level as int);
                let rest = self.state_path(index as int / 2, level + 1);
                assert(sp == self.lvl(level as int)[sib(index as int)] + rest);
                assert(self.pathable(index as int / 2, level + 1));
                assert(paths@ + (self.lvl(level as int)[sib(index as int)] + rest) =~= (paths@ + self.lvl(level as int)[sib(index as int)]) + rest);
            }
            let sibling = if index % 2 == 0 { index + 1 } else { index - 1 };

            extend_bytes(&mut paths, self.levels[level][sibling].clone());
            level += 1;
            index /= 2;
        }

        // for PATH to have a depth of >32 levels, we'd have to be processing
        // a batch of >2^32 responses
        assert!(level <= 32, "impossible: PATH depth {} exceeds 32", level);

        proof {
            assert(self.lvl(level as int).len() == self.levels@[level as int]@.len());
            assert(self.state_path(index as int, level as int) =~= Seq::<u8>::empty());
            assert(paths@ + Seq::<u8>::empty() =~= paths@);
        }
        paths
    }


    pub fn compute_root(&mut self) -> (r: Hash)
        requires
            old(self).ready(old(self).lvl(0)),
            old(self).lvl(0).len() >= 1,
            old(self).lvl(0).len() <= u32::MAX,
        ensures
            r@ == fin(final(self).ver(), spec_root(old(self).lvl(0))),
            final(self).built(old(self).lvl(0)),
            final(self).ver() == old(self).ver(),
    {
        assert!(
            !self.levels[0].is_empty(),
            "Must have at least one leaf to hash!"
        );

        let mut level = 0;
        let mut node_count = self.levels[0].len();

        let ghost leaves = self.lvl(0);
        proof { let _t: usize = level; }
        while node_count > 1
            invariant
                leaves == old(self).lvl(0), all64(leaves), leaves.len() >= 1, leaves.len() <= u32::MAX,
                self.ver() == old(self).ver(),
                self.nlevels() >= level + 1,
                level + node_count <= leaves.len(),
                forall|k: int| 0 <= k < level ==> #[trigger] self.lvl(k) == pad(lev(leaves, k as nat)),
                self.lvl(level as int) == lev(leaves, level as nat),
                node_count == lev(leaves, level as nat).len(), node_count >= 1,
                forall|k: int| level < k < self.nlevels() ==> (#[trigger] self.lvl(k)).len() == 0,
                all64(lev(leaves, level as nat)),
                depth(leaves) == level + depth(lev(leaves, level as nat)),
                spec_root(leaves) == spec_root(lev(leaves, level as nat)),
            decreases node_count
        {
            let ghost prev = lev(leaves, level as nat);
            let ghost l0 = level as int;
            let ghost s0 = *self;
            proof {
                lemma_next_all64(prev);
                assert(lev(leaves, (l0 + 1) as nat) == next_level(prev));
                assert(self.lvl(l0).len() == self.levels@[l0]@.len());
            }
            level += 1;

            if self.levels.len() < level + 1 {
                self.levels.push(vec![]);
            }

            if node_count % 2 != 0 {
                self.levels[level - 1].push(vec![0; self.algorithm.output_len()]);
                node_count += 1;
            }

            node_count /= 2;

            proof {
                assert(self.nlevels() >= s0.nlevels());
                assert forall|k: int| 0 <= k < s0.nlevels() && k != l0 implies self.levels@[k] == s0.levels@[k] by {}
                assert forall|k: int| 0 <= k < l0 implies #[trigger] self.lvl(k) == pad(lev(leaves, k as nat)) by {
                    assert(self.lvl(k) =~= s0.lvl(k));
                }
                assert(self.lvl(l0).len() == self.levels@[l0]@.len());
                if s0.lvl(l0).len() % 2 == 1 {
                    assert(self.levels@[l0]@ == s0.levels@[l0]@.push(self.levels@[l0]@.last()));
                    assert(self.levels@[l0]@.last()@ =~= zero_node());
                    assert(self.lvl(l0) =~= s0.lvl(l0).push(zero_node()));
                } else {
                    assert(self.lvl(l0) =~= s0.lvl(l0));
                }
                assert(self.lvl(l0) =~= pad(prev));
                assert(self.lvl(l0 + 1).len() == self.levels@[l0 + 1]@.len());
                if l0 + 1 < s0.nlevels() {
                    assert(s0.lvl(l0 + 1).len() == 0);
                    assert(s0.lvl(l0 + 1).len() == s0.levels@[l0 + 1]@.len());
                }
                assert(self.lvl(l0 + 1) =~= Seq::<Seq<u8>>::empty());
                assert forall|k: int| l0 + 1 < k < self.nlevels() implies (#[trigger] self.lvl(k)).len() == 0 by {
                    assert(self.lvl(k).len() == self.levels@[k]@.len());
                    if k < s0.nlevels() { assert(s0.lvl(k).len() == s0.levels@[k]@.len()); }
                }
            }
            for i in it2: 0..node_count
                invariant
                    level == l0 + 1, l0 >= 0, node_count <= u32::MAX, prev == lev(leaves, l0 as nat), all64(prev), all64(pad(prev)),
                    leaves == old(self).lvl(0),
                    self.ver() == old(self).ver(),
                    self.nlevels() >= level + 1,
                    node_count == pad(prev).len() / 2,
                    forall|k: int| 0 <= k < l0 ==> #[trigger] self.lvl(k) == pad(lev(leaves, k as nat)),
                    self.lvl(l0) == pad(prev),
                    self.lvl(l0 + 1) == next_level(prev).subrange(0, it2.index() as int),
                    forall|k: int| level < k < self.nlevels() ==> (#[trigger] self.lvl(k)).len() == 0,
            {
                proof {
                    assert(self.lvl(l0).len() == self.levels@[l0]@.len());
                    assert(self.lvl(l0)[2 * i] == self.levels@[l0]@[2 * i]@);
                    assert(self.lvl(l0)[2 * i + 1] == self.levels@[l0]@[2 * i + 1]@);
                }
                let ghost s1 = *self;
                let hash = self.hash_nodes(
                    &self.levels[level - 1][i * 2],
                    &self.levels[level - 1][(i * 2) + 1],
                );
                self.levels[level].push(hash);
                proof {
                    let j = i as int;
                    assert forall|k: int| 0 <= k < self.nlevels() && k != l0 + 1 implies self.levels@[k] == s1.levels@[k] by {}
                    assert(self.levels@[l0 + 1]@ == s1.levels@[l0 + 1]@.push(hash));
                    assert(self.lvl(l0 + 1) =~= s1.lvl(l0 + 1).push(hash@));
                    assert(hash@ == next_level(prev)[j]);
                    assert(self.lvl(l0 + 1) =~= next_level(prev).subrange(0, j + 1));
                    assert forall|k: int| 0 <= k < l0 implies #[trigger] self.lvl(k) == pad(lev(leaves, k as nat)) by {
                        assert(self.lvl(k) =~= s1.lvl(k));
                    }
                    assert(self.lvl(l0) =~= s1.lvl(l0));
                    assert forall|k: int| level < k < self.nlevels() implies (#[trigger] self.lvl(k)).len() == 0 by {
                        assert(self.lvl(k) =~= s1.lvl(k));
                    }
                }
            }
            proof {
                assert(next_level(prev).subrange(0, node_count as int) =~= next_level(prev));
            }
        }

        proof {
            assert(self.lvl(level as int).len() == self.levels@[level as int]@.len());
            assert(depth(lev(leaves, level as nat)) == 0);
        }
        let ghost s2 = *self;
        assert!(self.levels[level].len() == 1);
        let result = self.levels[level].pop().unwrap();
        proof {
            let lv = level as int;
            assert(result@ == s2.lvl(lv)[0]);
            assert(spec_root(lev(leaves, level as nat)) == lev(leaves, level as nat)[0]);
            assert forall|k: int| 0 <= k < self.nlevels() && k != lv implies self.levels@[k] == s2.levels@[k] by {}
            assert forall|k: int| 0 <= k < depth(leaves) implies #[trigger] self.lvl(k) == pad(lev(leaves, k as nat)) by {
                assert(self.lvl(k) =~= s2.lvl(k));
            }
            assert forall|k: int| depth(leaves) <= k < self.nlevels() implies (#[trigger] self.lvl(k)).len() == 0 by {
                assert(self.lvl(k).len() == self.levels@[k]@.len());
                if k > lv { assert(s2.lvl(k).len() == s2.levels@[k]@.len()); }
            }
            assert(result@.len() == 64);
        }

        self.finalize_output(result)
    }

    pub fn reset(&mut self)
        requires old(self).nlevels() >= 1
        ensures final(self).nlevels() == old(self).nlevels(), final(self).ready(Seq::empty()),
            final(self).ver() == old(self).ver()
    {
        for level in it: self.levels.iter_mut()
            invariant forall|j: int| 0 <= j < it.index() ==> (#[trigger] final(it.seq()[j]))@.len() == 0,
        {
            level.clear();
        }
        proof {
            assert forall|k: int| 0 <= k < self.nlevels() implies (#[trigger] self.lvl(k)).len() == 0 by {
                assert(self.lvl(k).len() == self.levels@[k]@.len());
            }
            assert(self.lvl(0) =~= Seq::<Seq<u8>>::empty());
        }
    }

    pub fn is_empty(&self) -> bool
        requires self.nlevels() >= 1
    {
        self.levels[0].is_empty()
    }

    pub fn push_leaf(&mut self, data: &[u8])
        requires old(self).nlevels() >= 1
        ensures forall|leaves: Seq<Seq<u8>>| old(self).ready(leaves) ==> final(self).ready(leaves.push(leafH(data@))),
            final(self).ver() == old(self).ver()
    {
        let hash = self.hash_leaf(data);
        self.levels[0].push(hash);
        proof {
            broadcast use h512_len;
            assert forall|leaves: Seq<Seq<u8>>| old(self).ready(leaves) implies self.ready(leaves.push(leafH(data@))) by {
                assert(self.lvl(0) =~= leaves.push(leafH(data@)));
                assert forall|k: int| 1 <= k < self.nlevels() implies (#[trigger] self.lvl(k)).len() == 0 by {
                    assert(self.lvl(k) =~= old(self).lvl(k));
                }
            }
        }
    }

    pub fn root_from_paths(&self, mut index: usize, data: &[u8], paths: &[u8]) -> (r: Hash)
        requires paths@.len() % 64 == 0
        ensures r@ == fin(self.ver(), spec_fold(index as int, leafH(data@), paths@))
    {
        let mut hash = self.hash_leaf(data);

        assert!(paths.len() % self.algorithm.output_len() == 0);

        let ghost index0 = index as int;
        proof {
            broadcast use h512_len;
            assert(paths@.subrange(0, paths@.len() as int) =~= paths@);
            assert(hash@.len() == 64);
        }
        for path in it: chunks(paths, self.algorithm.output_len())
            invariant
                paths@.len() % 64 == 0,
                hash@.len() == 64,
                it.seq().len() == paths@.len() / 64,
                forall|i: int| 0 <= i < it.seq().len() ==> (#[trigger] it.seq()[i])@ == paths@.subrange(i * 64, (i + 1) * 64),
                spec_fold(index as int, hash@, paths@.subrange(it.index() * 64, paths@.len() as int))
                    == spec_fold(index0, leafH(data@), paths@),
        {
            broadcast use vec_from_slice_u8;
            proof { vec_from_obeys(); }
            broadcast use h512_len;
            let ghost rem = paths@.subrange(it.index() * 64, paths@.len() as int);
            proof {
                let ix = index;
                assert((ix & 1 == 0) == (ix % 2 == 0)) by(bit_vector);
                assert(ix >> 1 == ix / 2) by(bit_vector);
                assert(rem.len() >= 64);
                assert(rem.subrange(0, 64) =~= path@);
                assert(rem.subrange(64, rem.len() as int) =~= paths@.subrange((it.index() + 1) * 64, paths@.len() as int));
            }
            let mut ctx = digest::Context::new(self.algorithm);
            ctx.update(TREE_NODE_TWEAK);

            if index & 1 == 0 {
                // Left
                ctx.update(&hash);
                ctx.update(path);
            } else {
                // Right
                ctx.update(path);
                ctx.update(&hash);
            }

            hash = Hash::from(ctx.finish().as_ref());
            index >>= 1;
        }

        self.finalize_output(hash)
    }

    #[inline]
    fn finalize_output(&self, data: Hash) -> (r: Hash)
        requires data@.len() == 64
        ensures r@ == fin(self.ver(), data@)
    {
        broadcast use vec_from_slice_u8;
        proof { vec_from_obeys(); }
        match self.version {
            RfcDraft13 => data[0..32].into(),
            Google => data,
        }
    }

    fn hash_leaf(&self, leaf: &[u8]) -> (r: Data)
        ensures r@ == leafH(leaf@)
    {
        broadcast use cat_views2;
        self.hash(&[TREE_LEAF_TWEAK, leaf])
    }

    fn hash_nodes(&self, first: &[u8], second: &[u8]) -> (r: Data)
        ensures r@ == nodeH(first@, second@)
    {
        broadcast use cat_views3;
        self.hash(&[TREE_NODE_TWEAK, first, second])
    }

    fn hash(&self, to_hash: &[&[u8]]) -> (r: Data)
        ensures r@ == H512(cat(views(to_hash@)))
    {
        broadcast use vec_from_slice_u8;
        proof { vec_from_obeys(); }
        let mut ctx = digest::Context::new(self.algorithm);
        for data in it: to_hash
            invariant ctx.data@ == cat(views(to_hash@).subrange(0, it.index() as int)),
        {
            proof {
                let k = it.index() as int;
                let v = views(to_hash@);
                assert(v.subrange(0, k + 1).drop_last() =~= v.subrange(0, k));
            }
            ctx.update(data);
        }
        proof { assert(views(to_hash@).subrange(0, to_hash@.len() as int) =~= views(to_hash@)); }
        Data::from(ctx.finish().as_ref())
    }
}

pub proof fn lemma_depth_lev(l: Seq<Seq<u8>>, k: nat)
    requires k <= depth(l)
    ensures depth(lev(l, k)) == depth(l) - k
    decreases k
{
    if k > 0 {
        lemma_depth_lev(l, (k - 1) as nat);
        let p = lev(l, (k - 1) as nat);
        assert(depth(p) == depth(l) - (k - 1));
        assert(depth(p) >= 1);
        assert(p.len() > 1);
        assert(lev(l, k) == next_level(p));
    }
}

impl MerkleTree {
    pub proof fn lemma_built_path(&self, leaves: Seq<Seq<u8>>, i: int, k: nat)
        requires self.built(leaves), k <= depth(leaves), 0 <= i < lev(leaves, k).len() || (lev(leaves, k).len() <= 1 && i >= 0)
        ensures self.pathable(i, k as int), self.state_path(i, k as int) == spec_path(lev(leaves, k), i)
        decreases depth(leaves) - k
    {
        lemma_depth_lev(leaves, k);
        let lk = lev(leaves, k);
        if k == depth(leaves) {
            assert(self.lvl(k as int).len() == 0);
            assert(depth(lk) == 0);
            assert(lk.len() <= 1);
        } else {
            assert(depth(lk) >= 1);
            assert(lk.len() > 1);
            assert(self.lvl(k as int) == pad(lk));
            assert(lev(leaves, k + 1) == next_level(lk));
            self.lemma_built_path(leaves, i / 2, k + 1);
        }
    }

    pub proof fn lemma_get_paths_complete(&self, leaves: Seq<Seq<u8>>, i: int)
        requires self.built(leaves), 0 <= i < leaves.len()
        ensures
            self.pathable(i, 0),
            self.state_path(i, 0) == spec_path(leaves, i),
            spec_fold(i, leaves[i], self.state_path(i, 0)) == spec_root(leaves),
    {
        self.lemma_built_path(leaves, i, 0);
        lemma_complete(leaves, i);
    }
}
}
fn main() {}
