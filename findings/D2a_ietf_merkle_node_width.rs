// D2a / C02: for IETF draft-13 every Merkle node is the first 32 bytes of SHA-512 (leaf tweak 0x00, node tweak 0x01);
// the pinned tree keeps 64-byte inner nodes / PATH elements and truncates only the root.
use ring::digest::{digest, SHA512};
use roughenough::merkle::MerkleTree;
use roughenough::version::Version;

fn h32(parts: &[&[u8]]) -> Vec<u8> {
    let mut v = Vec::new();
    for p in parts { v.extend_from_slice(p); }
    digest(&SHA512, &v).as_ref()[0..32].to_vec()
}

#[test]
fn ietf_two_leaf_batch_matches_draft13_reference() {
    let (a, b) = (vec![1u8; 1024], vec![2u8; 1024]);
    let mut t = MerkleTree::new(Version::RfcDraft13);
    t.push_leaf(&a);
    t.push_leaf(&b);
    let root = t.compute_root();
    let (la, lb) = (h32(&[&[0u8], &a]), h32(&[&[0u8], &b]));
    let want_root = h32(&[&[1u8], &la, &lb]);
    let path0 = t.get_paths(0);
    assert_eq!(path0.len(), 32, "PATH element for a 2-leaf IETF batch must be one 32-byte node");
    assert_eq!(path0, lb);
    assert_eq!(root, want_root);
}
